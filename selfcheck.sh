#!/bin/bash
# Determinism proof for the simulator: every property's batch digest (a fold of the per-run event
# logs) must be identical across repeated executions in separate processes and across worker
# counts. Usage: ./check selfcheck [RUNS]   (default 2000 runs per property, fewer for the enumerating ones; C05: per limit; C19: RUNS/7)
# Exit 0: all digests agree. Exit 2: a divergence (harness defect, never a property violation).
set -u
cd "$(dirname "$0")"
runs="${1:-2000}"
bin="${CARGO_TARGET_DIR:-/verif/target}/release/avrosim"
fail=0
for seed in 1 7; do
  for id in C03 C06 C13 C14 C18 C20; do
    case $id in C14) n=$(( runs / 12 + 5 ));; C06|C13) n=$(( runs / 2 ));; *) n=$runs;; esac
    a=$(VERIF_SEED=$seed $bin digest $id "$n" 1)
    b=$(VERIF_SEED=$seed $bin digest $id "$n" 16)
    c=$(VERIF_SEED=$seed $bin digest $id "$n" 5)
    if [ "$a" = "$b" ] && [ "$a" = "$c" ]; then echo "selfcheck seed=$seed $a  [1/16/5 workers agree]"; else echo "DIVERGENCE seed=$seed $id:"; echo "  $a"; echo "  $b"; echo "  $c"; fail=1; fi
  done
  # C19: every run is a fresh child process with real threads under the baton
  n19=$(( runs / 7 + 10 ))
  a=$(VERIF_SEED=$seed $bin digest C19 $n19 2)
  b=$(VERIF_SEED=$seed $bin digest C19 $n19 16)
  if [ "$a" = "$b" ]; then echo "selfcheck seed=$seed $a  [2/16 workers, separate process trees agree]"; else echo "DIVERGENCE seed=$seed C19:"; echo "  $a"; echo "  $b"; fail=1; fi
  # C05: one child process per limit
  mkdir -p target/selfcheck
  for limit in 4096 1048576; do
    VERIF_WORKERS=3 $bin c05child $limit $seed quick 0 "$runs" target/selfcheck/a.json >/dev/null 2>&1
    VERIF_WORKERS=16 $bin c05child $limit $seed quick 0 "$runs" target/selfcheck/b.json >/dev/null 2>&1
    da=$(python3 -c "import json;d=json.load(open('target/selfcheck/a.json'));print(d['digest'],d['evaluations'],len(d['distinct']))")
    db=$(python3 -c "import json;d=json.load(open('target/selfcheck/b.json'));print(d['digest'],d['evaluations'],len(d['distinct']))")
    if [ "$da" = "$db" ] && [ -n "$da" ]; then echo "selfcheck seed=$seed C05 limit=$limit digest/evaluations/distinct=$da  [3/16 workers agree]"; else echo "DIVERGENCE seed=$seed C05 limit=$limit: $da vs $db"; fail=1; fi
  done
done
# Miri engine of C19: one (scenario seed, Miri seed) pair is one execution - run a first-use race
# scenario twice over 12 Miri seeds and compare what every execution printed
for i in 1 2; do
  ( cd miri19 && MIRIFLAGS="-Zmiri-many-seeds=0..12 -Zmiri-preemption-rate=0.05" cargo +nightly miri run --offline --quiet -- 5 race:9 2>/dev/null | grep MIRI- | sort > ../target/selfcheck/miri_$i.txt )
done
if cmp -s target/selfcheck/miri_1.txt target/selfcheck/miri_2.txt && [ -s target/selfcheck/miri_1.txt ]; then echo "selfcheck miri19: 12 Miri seeds x 2 runs identical ($(sort -u target/selfcheck/miri_1.txt | wc -l) distinct histories)"; else echo "DIVERGENCE miri19"; fail=1; fi
if [ $fail = 0 ]; then echo "selfcheck: all digests agree"; exit 0; else exit 2; fi
