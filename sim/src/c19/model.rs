//! C19 - operations on the process-wide write-once settings, the recorded history, and the
//! OnceCellModel judge (linearizability of every setting against a write-once register).
//!
//! This file is pure (serde only): it is compiled into `avrosim` (baton engine) and, through
//! `#[path]`, into `/verif/miri19` (Miri engine, free-running threads).

use serde::{Deserialize, Serialize};

pub const DEFAULT_LIMIT: u64 = 512 * 1024 * 1024;
pub const DEFAULT_HR: bool = false;

#[derive(Clone, Copy, Debug, PartialEq, Eq, Hash, PartialOrd, Ord, Serialize, Deserialize)]
pub enum Setting {
    Alloc,
    Hr,
    Name,
    Namespace,
    EnumSym,
    Field,
    Cmp,
}

impl Setting {
    pub const ALL: [Setting; 7] = [Setting::Alloc, Setting::Hr, Setting::Name, Setting::Namespace, Setting::EnumSym, Setting::Field, Setting::Cmp];
    pub fn name(&self) -> &'static str {
        match self {
            Setting::Alloc => "max_allocation_bytes",
            Setting::Hr => "serde_human_readable",
            Setting::Name => "schema_name_validator",
            Setting::Namespace => "schema_namespace_validator",
            Setting::EnumSym => "enum_symbol_name_validator",
            Setting::Field => "record_field_name_validator",
            Setting::Cmp => "schemata_equality_comparator",
        }
    }
}

#[derive(Clone, Copy, Debug, PartialEq, Eq, Hash, PartialOrd, Ord, Serialize, Deserialize)]
pub enum CodecKind {
    Deflate,
    Snappy,
    Zstd,
    Bzip2,
    Xz,
}

impl CodecKind {
    pub fn needs_c(&self) -> bool {
        matches!(self, CodecKind::Zstd | CodecKind::Bzip2 | CodecKind::Xz)
    }
}

/// A decoding path that must apply the allocation limit in force.
#[derive(Clone, Copy, Debug, PartialEq, Eq, Hash, PartialOrd, Ord, Serialize, Deserialize)]
pub enum AllocPath {
    DatumBytes,
    DatumString,
    DatumFixed,
    DatumArrayNull,
    DatumMapNull,
    /// the same `n` items written as two blocks (each one alone is well within the limit)
    DatumArrayNullSplit,
    DatumMapNullSplit,
    DeserArrayNullSplit,
    /// the deprecated free function `from_avro_datum`
    FromAvroDatumBytes,
    DeserBytes,
    DeserString,
    DeserFixed,
    DeserArrayNull,
    DeserMapNull,
    /// container file, null codec: the declared byte size of a block
    BlockSize,
    /// the same for the third block of a file read by one long-lived reader, after blocks of
    /// 0.55 n and 0.65 n bytes have grown its reused buffer (n >= 16)
    BlockSizeAfterGrowth,
    Decompress(CodecKind),
    /// container file whose single block decompresses to `n` bytes
    ContainerCompressed(CodecKind),
    SingleObjectBytes,
}

impl AllocPath {
    /// does the path construct a reader whose human-readable flag defaults to the process setting?
    pub fn builds_reader(&self) -> bool {
        !matches!(self, AllocPath::Decompress(_))
    }
    /// reads a container header (whose own strings and metadata map are subject to the limit too)
    pub fn reads_header(&self) -> bool {
        matches!(self, AllocPath::BlockSize | AllocPath::BlockSizeAfterGrowth | AllocPath::ContainerCompressed(_))
    }
    pub fn touches_name(&self) -> bool {
        matches!(self, AllocPath::DatumFixed | AllocPath::DeserFixed)
    }
    /// can the declared length be given without the data behind it?
    pub fn declared_only_ok(&self) -> bool {
        matches!(
            self,
            AllocPath::DatumBytes | AllocPath::DatumString | AllocPath::DatumFixed | AllocPath::FromAvroDatumBytes | AllocPath::DeserBytes | AllocPath::DeserString | AllocPath::DeserFixed | AllocPath::BlockSize | AllocPath::SingleObjectBytes
        )
    }
    pub fn needs_c(&self) -> bool {
        match self {
            AllocPath::Decompress(c) | AllocPath::ContainerCompressed(c) => c.needs_c(),
            _ => false,
        }
    }
}

/// A path on which the human-readable flag in force is observable.
#[derive(Clone, Copy, Debug, PartialEq, Eq, Hash, PartialOrd, Ord, Serialize, Deserialize)]
pub enum HrPath {
    ToValue,
    FromValue,
    DatumWriterSer,
    DatumReaderDeser,
    ContainerWriterSer,
    ContainerReaderDeser,
    SingleWriterSer,
    SingleReaderDeser,
    /// `SpecificDatumReader::<T>::builder().build()` + `read`
    SpecificDatumReaderDeser,
    /// `SpecificSingleObjectReader::<T>::new()` + `read`
    SpecificSingleReaderDeser,
    /// `SpecificSingleObjectWriter::<T>::builder().build()` + `write_ref`
    SingleWriterBuilderSer,
    /// the free function `write_avro_datum_ref`
    WriteAvroDatumRef,
}

impl HrPath {
    /// the path decodes a string, so the allocation limit is read (and can reject even one byte)
    pub fn decodes(&self) -> bool {
        matches!(self, HrPath::DatumReaderDeser | HrPath::ContainerReaderDeser | HrPath::SingleReaderDeser | HrPath::SpecificDatumReaderDeser | HrPath::SpecificSingleReaderDeser)
    }
}

/// Below this limit a container header (11-byte key, schema text, 80 bytes per metadata entry) may
/// itself be rejected; the outcome of a container path is then either the rejection or what the
/// block alone would give.
pub const HEADER_FLOOR: u64 = 1024;

#[derive(Clone, Debug, PartialEq, Serialize, Deserialize)]
pub enum Op {
    SetAlloc(u64),
    SetHr(bool),
    /// install a validator that additionally accepts the one name carrying `tag`
    SetValidator { which: Setting, tag: u32 },
    /// install a comparator that additionally equates decimal(precision = tag) with bytes
    SetCmp { tag: u32 },
    /// `n`: declared length (bytes-like paths) or item count (array / map paths)
    UseAlloc { path: AllocPath, n: u64, with_data: bool, explicit_hr: bool },
    UseHr { path: HrPath },
    /// parse a schema carrying the name that only the validator with `tag` accepts
    /// `direct`: through `Name::new` / `Name::new_with_enclosing_namespace` instead of parsing a
    /// schema text (names and namespaces only) - the validator is consulted first thing
    UseValidator { which: Setting, tag: u32, #[serde(default)] direct: bool },
    UseCmp { tag: u32 },
    /// parse a record called `no<tag>.Outer` with a nested named type that inherits the namespace
    /// `no<tag>`: only the namespace validator with `tag` refuses that (otherwise valid) namespace
    UseNamespaceInherited { tag: u32 },
}

impl Op {
    pub fn kind(&self) -> String {
        match self {
            Op::SetAlloc(_) => "set_alloc".into(),
            Op::SetHr(_) => "set_hr".into(),
            Op::SetValidator { which, .. } => format!("set_{:?}", which).to_lowercase(),
            Op::SetCmp { .. } => "set_cmp".into(),
            Op::UseAlloc { path, .. } => format!("use_alloc.{path:?}"),
            Op::UseHr { path } => format!("use_hr.{path:?}"),
            Op::UseValidator { which, .. } => format!("use_{:?}", which).to_lowercase(),
            Op::UseCmp { .. } => "use_cmp".into(),
            Op::UseNamespaceInherited { .. } => "use_namespace_inherited".into(),
        }
    }
    pub fn is_setter(&self) -> bool {
        matches!(self, Op::SetAlloc(_) | Op::SetHr(_) | Op::SetValidator { .. } | Op::SetCmp { .. })
    }
    /// the setting whose value decides this operation's observation
    pub fn primary(&self) -> Setting {
        match self {
            Op::SetAlloc(_) | Op::UseAlloc { .. } => Setting::Alloc,
            Op::SetHr(_) | Op::UseHr { .. } => Setting::Hr,
            Op::SetValidator { which, .. } | Op::UseValidator { which, .. } => *which,
            Op::SetCmp { .. } | Op::UseCmp { .. } => Setting::Cmp,
            Op::UseNamespaceInherited { .. } => Setting::Namespace,
        }
    }
    /// every setting the operation reads (and so may initialise to its default)
    pub fn touches(&self) -> Vec<Setting> {
        let mut v = vec![self.primary()];
        if let Op::UseAlloc { path, n: 0, .. } = self {
            // an empty array / map ends at its first count: no guard is consulted, the limit is not read
            if matches!(
                path,
                AllocPath::DatumArrayNull | AllocPath::DatumMapNull | AllocPath::DeserArrayNull | AllocPath::DeserMapNull | AllocPath::DatumArrayNullSplit | AllocPath::DatumMapNullSplit | AllocPath::DeserArrayNullSplit
            ) {
                v.clear();
            }
        }
        match self {
            Op::UseAlloc { path, explicit_hr, .. } => {
                // from_avro_datum offers no way to pass the flag: it always reads the process setting
                if path.builds_reader() && (!*explicit_hr || *path == AllocPath::FromAvroDatumBytes) {
                    v.push(Setting::Hr);
                }
                if path.touches_name() {
                    v.push(Setting::Name);
                }
            }
            Op::UseValidator { which, .. } if *which != Setting::Name => v.push(Setting::Name),
            Op::UseNamespaceInherited { .. } => {
                // the record carrying the nested type has a name and a field
                v.push(Setting::Name);
                v.push(Setting::Field);
            }
            Op::UseHr { path } if path.decodes() => v.push(Setting::Alloc),
            _ => {}
        }
        v
    }
}

#[derive(Clone, Debug, PartialEq, Serialize, Deserialize)]
pub enum Obs {
    /// value returned by an integer setter
    Int(u64),
    /// value returned by the boolean setter / flag seen by a user / verdict of a validator or comparator
    Bool(bool),
    SetOk,
    SetErr,
    /// declared length accepted and the value delivered intact
    Accept,
    /// rejected with the allocation-limit error
    RejectLimit,
    /// failed for another reason (expected when only the length was supplied)
    OtherErr(String),
    /// delivered, but not what was written
    Wrong(String),
    Panic(String),
}

#[derive(Clone, Debug, Serialize, Deserialize)]
pub struct Event {
    pub thread: usize,
    pub index: usize,
    pub op: Op,
    /// global event sequence numbers
    pub invoke: u64,
    pub ret: u64,
    pub obs: Obs,
}

#[derive(Clone, Copy, Debug, Serialize, Deserialize)]
pub struct Sizes {
    /// size_of::<Value>()
    pub value: u64,
    /// size_of::<(String, Value)>()
    pub entry: u64,
}

#[derive(Clone, Debug, Serialize, Deserialize)]
pub struct History {
    pub sizes: Sizes,
    pub events: Vec<Event>,
}

pub const MAP_KEY_LEN: u64 = 8;

/// What the limit is compared with on each path.
pub fn cost(path: &AllocPath, n: u64, sizes: &Sizes) -> Option<u64> {
    match path {
        AllocPath::DatumArrayNull | AllocPath::DatumArrayNullSplit => n.checked_mul(sizes.value),
        AllocPath::DatumMapNull | AllocPath::DatumMapNullSplit => n.checked_mul(sizes.entry),
        // every entry also carries an 8-byte key string, itself subject to the limit
        AllocPath::DeserMapNull if n > 0 => Some(n.max(MAP_KEY_LEN)),
        _ => Some(n),
    }
}

/// Value of a cell: integer, boolean, or the tag of the installed validator/comparator (None = default).
#[derive(Clone, Copy, Debug, PartialEq)]
pub enum Val {
    Int(u64),
    Bool(bool),
    Tag(Option<u32>),
}

pub fn default_of(s: Setting) -> Val {
    match s {
        Setting::Alloc => Val::Int(DEFAULT_LIMIT),
        Setting::Hr => Val::Bool(DEFAULT_HR),
        _ => Val::Tag(None),
    }
}

fn proposal(op: &Op, s: Setting) -> Val {
    if op.primary() == s {
        match op {
            Op::SetAlloc(v) => return Val::Int(*v),
            Op::SetHr(b) => return Val::Bool(*b),
            Op::SetValidator { tag, .. } | Op::SetCmp { tag } => return Val::Tag(Some(*tag)),
            _ => {}
        }
    }
    default_of(s)
}

/// What the operation must observe if setting `s` holds `v` (None: this setting does not
/// constrain the observation). `winner`: this operation is the one that set the cell.
fn expected(op: &Op, s: Setting, v: Val, winner: bool, sizes: &Sizes) -> Option<Vec<Obs>> {
    if op.primary() != s || !op.touches().contains(&s) {
        return None;
    }
    Some(match (op, v) {
        (Op::SetAlloc(_), Val::Int(x)) => vec![Obs::Int(x)],
        (Op::SetHr(_), Val::Bool(b)) => vec![Obs::Bool(b)],
        (Op::SetValidator { .. }, _) | (Op::SetCmp { .. }, _) => vec![if winner { Obs::SetOk } else { Obs::SetErr }],
        (Op::UseAlloc { path, n, with_data, .. }, Val::Int(limit)) => {
            let within = cost(path, *n, sizes).map(|c| c <= limit).unwrap_or(false);
            let mut want = if !within {
                vec![Obs::RejectLimit]
            } else if *with_data {
                vec![Obs::Accept]
            } else {
                // any failure other than the limit (there is no data behind the length)
                vec![Obs::OtherErr(String::new())]
            };
            if path.reads_header() && limit < HEADER_FLOOR && within {
                want.push(Obs::RejectLimit);
            }
            want
        }
        // a decoding path may be stopped by a tiny allocation limit before the flag is seen
        (Op::UseHr { path }, Val::Bool(b)) => {
            if path.decodes() {
                vec![Obs::Bool(b), Obs::RejectLimit]
            } else {
                vec![Obs::Bool(b)]
            }
        }
        (Op::UseValidator { tag, .. }, Val::Tag(t)) | (Op::UseCmp { tag }, Val::Tag(t)) => vec![Obs::Bool(t == Some(*tag))],
        // accepted unless the validator that refuses this namespace is the one in force
        (Op::UseNamespaceInherited { tag }, Val::Tag(t)) => vec![Obs::Bool(t != Some(*tag))],
        _ => vec![],
    })
}

fn obs_matches(want: &Obs, got: &Obs) -> bool {
    match (want, got) {
        (Obs::OtherErr(_), Obs::OtherErr(_)) => true,
        _ => want == got,
    }
}

#[derive(Clone, Debug)]
pub struct Verdict {
    pub class: &'static str,
    pub setting: Option<Setting>,
    pub op_kind: String,
    pub detail: String,
}

/// Judge a history: every setting must behave as a write-once register.
///
/// For setting `s` let H be the events that touch it. The history is accepted iff there is an
/// event `w` in H that was invoked before any event of H returned, such that with V = proposal(w)
/// (a user's proposal is the documented default) every event of H observed what V dictates.
pub fn judge(h: &History) -> Option<Verdict> {
    for e in &h.events {
        if let Obs::Panic(m) = &e.obs {
            return Some(Verdict { class: "panic", setting: Some(e.op.primary()), op_kind: e.op.kind(), detail: format!("thread {} op {} ({:?}) panicked: {m}", e.thread, e.index, e.op) });
        }
    }
    for s in Setting::ALL {
        let hs: Vec<&Event> = h.events.iter().filter(|e| e.op.touches().contains(&s)).collect();
        if hs.is_empty() {
            continue;
        }
        let min_ret = hs.iter().map(|e| e.ret).min().unwrap();
        let mut first_reason: Option<(String, String)> = None;
        let mut ok = false;
        for w in hs.iter().filter(|e| e.invoke < min_ret) {
            let v = proposal(&w.op, s);
            let mut bad = None;
            for e in &hs {
                let winner = std::ptr::eq(*e, *w);
                if let Some(want) = expected(&e.op, s, v, winner, &h.sizes) {
                    if !want.iter().any(|x| obs_matches(x, &e.obs)) {
                        bad = Some((
                            e.op.kind(),
                            format!(
                                "with {} = {:?} (decided by thread {} op {} {:?}), thread {} op {} {:?} must observe {:?} but observed {:?}",
                                s.name(),
                                v,
                                w.thread,
                                w.index,
                                w.op,
                                e.thread,
                                e.index,
                                e.op,
                                want,
                                e.obs
                            ),
                        ));
                        break;
                    }
                }
            }
            match bad {
                None => {
                    ok = true;
                    break;
                }
                Some(b) => {
                    if first_reason.is_none() {
                        first_reason = Some(b);
                    }
                }
            }
        }
        if !ok {
            let (k, d) = first_reason.unwrap_or_else(|| ("?".into(), "no candidate first operation".into()));
            return Some(Verdict { class: "not-write-once", setting: Some(s), op_kind: k, detail: d });
        }
    }
    None
}
