//! C19 - performs one operation against the real library and classifies what it observed.
//! Shared between `avrosim` (baton engine) and `/verif/miri19` (Miri engine) through `#[path]`.
//! Paths that need the C-backed codecs are compiled only with the `ccodecs` feature.

use super::model::*;
use apache_avro::error::Details;
use apache_avro::reader::datum::GenericDatumReader;
use apache_avro::schema::{DecimalSchema, FixedSchema, InnerDecimalSchema, Name};
use apache_avro::schema_equality::{SchemataEq, StructFieldEq, set_schemata_equality_comparator};
use apache_avro::types::Value;
use apache_avro::validator::{
    EnumSymbolNameValidator, RecordFieldNameValidator, SchemaNameValidator, SchemaNamespaceValidator, set_enum_symbol_name_validator, set_record_field_name_validator,
    set_schema_name_validator, set_schema_namespace_validator,
};
use apache_avro::writer::datum::GenericDatumWriter;
use apache_avro::{AvroResult, AvroSchema, Codec, DeflateSettings, Error, GenericSingleObjectReader, Reader, Schema, SpecificSingleObjectWriter, Writer};
use serde::{Deserialize, Deserializer, Serialize, Serializer};

pub fn sizes() -> Sizes {
    Sizes { value: std::mem::size_of::<Value>() as u64, entry: std::mem::size_of::<(String, Value)>() as u64 }
}

// ---- instrumented validators / comparator -------------------------------------------------------

fn spec_ident(s: &str) -> bool {
    let mut cs = s.chars();
    match cs.next() {
        Some(c) if c.is_ascii_alphabetic() || c == '_' => {}
        _ => return false,
    }
    cs.all(|c| c.is_ascii_alphanumeric() || c == '_')
}

pub fn special_name(which: Setting, tag: u32) -> String {
    match which {
        Setting::Name => format!("x-{tag}"),
        Setting::Namespace => format!("ns-{tag}"),
        Setting::EnumSym => format!("S-{tag}"),
        Setting::Field => format!("f-{tag}"),
        _ => unreachable!(),
    }
}

struct TagValidator {
    tag: u32,
}

impl SchemaNameValidator for TagValidator {
    fn validate(&self, name: &str) -> AvroResult<usize> {
        if name == special_name(Setting::Name, self.tag) {
            return Ok(0);
        }
        let start = name.rfind('.').map(|i| i + 1).unwrap_or(0);
        let ns_ok = start == 0 || name[..start - 1].split('.').all(|p| p.is_empty() || spec_ident(p));
        if ns_ok && spec_ident(&name[start..]) {
            Ok(start)
        } else {
            Err(Details::InvalidSchemaName(name.to_string(), "avrosim tag validator").into())
        }
    }
}

impl SchemaNamespaceValidator for TagValidator {
    fn validate(&self, ns: &str) -> AvroResult<()> {
        // besides accepting one extra namespace, this validator refuses one that is valid otherwise
        if ns == format!("no{}", self.tag) {
            return Err(Details::InvalidNamespace(ns.to_string(), "avrosim tag validator").into());
        }
        if ns == special_name(Setting::Namespace, self.tag) || ns.is_empty() || ns.split('.').all(spec_ident) {
            Ok(())
        } else {
            Err(Details::InvalidNamespace(ns.to_string(), "avrosim tag validator").into())
        }
    }
}

impl EnumSymbolNameValidator for TagValidator {
    fn validate(&self, symbol: &str) -> AvroResult<()> {
        if symbol == special_name(Setting::EnumSym, self.tag) || spec_ident(symbol) {
            Ok(())
        } else {
            Err(Details::EnumSymbolName(symbol.to_string()).into())
        }
    }
}

impl RecordFieldNameValidator for TagValidator {
    fn validate(&self, field: &str) -> AvroResult<()> {
        if field == special_name(Setting::Field, self.tag) || spec_ident(field) {
            Ok(())
        } else {
            Err(Details::FieldName(field.to_string()).into())
        }
    }
}

#[derive(Debug)]
struct TagEq {
    tag: u32,
}

impl SchemataEq for TagEq {
    fn compare(&self, a: &Schema, b: &Schema) -> bool {
        let special = |x: &Schema, y: &Schema| matches!((x, y), (Schema::Decimal(d), Schema::Bytes) if d.precision == self.tag as usize);
        if special(a, b) || special(b, a) {
            return true;
        }
        StructFieldEq { include_attributes: false }.compare(a, b)
    }
}

// ---- probes for the human-readable flag ---------------------------------------------------------

struct HrProbe;

impl Serialize for HrProbe {
    fn serialize<S: Serializer>(&self, s: S) -> Result<S::Ok, S::Error> {
        if s.is_human_readable() { s.serialize_str("H") } else { s.serialize_str("B") }
    }
}

impl AvroSchema for HrProbe {
    fn get_schema() -> Schema {
        Schema::String
    }
}

struct HrSeen(bool);

impl<'de> Deserialize<'de> for HrSeen {
    fn deserialize<D: Deserializer<'de>>(d: D) -> Result<Self, D::Error> {
        let hr = d.is_human_readable();
        let _ = String::deserialize(d)?;
        Ok(HrSeen(hr))
    }
}

impl AvroSchema for HrSeen {
    fn get_schema() -> Schema {
        Schema::String
    }
}

/// Accepts whatever is offered and keeps nothing.
struct Sink;

impl<'de> Deserialize<'de> for Sink {
    fn deserialize<D: Deserializer<'de>>(d: D) -> Result<Self, D::Error> {
        serde::de::IgnoredAny::deserialize(d).map(|_| Sink)
    }
}

// ---- tiny encoders --------------------------------------------------------------------------------

fn put_long(out: &mut Vec<u8>, n: i64) {
    let mut z = ((n << 1) ^ (n >> 63)) as u64;
    while z >= 0x80 {
        out.push((z as u8) | 0x80);
        z >>= 7;
    }
    out.push(z as u8);
}

fn container(schema_json: &str, codec: Option<&str>, count: i64, payload: &[u8], declared_size: i64) -> Vec<u8> {
    let marker = [0xA5u8; 16];
    let mut out = vec![b'O', b'b', b'j', 1];
    let mut meta: Vec<(&str, &[u8])> = vec![("avro.schema", schema_json.as_bytes())];
    if let Some(c) = codec {
        meta.push(("avro.codec", c.as_bytes()));
    }
    put_long(&mut out, meta.len() as i64);
    for (k, v) in meta {
        put_long(&mut out, k.len() as i64);
        out.extend_from_slice(k.as_bytes());
        put_long(&mut out, v.len() as i64);
        out.extend_from_slice(v);
    }
    out.push(0);
    out.extend_from_slice(&marker);
    put_long(&mut out, count);
    put_long(&mut out, declared_size);
    out.extend_from_slice(payload);
    out.extend_from_slice(&marker);
    out
}

fn lib_codec(k: CodecKind) -> Option<Codec> {
    match k {
        CodecKind::Deflate => Some(Codec::Deflate(DeflateSettings::default())),
        CodecKind::Snappy => Some(Codec::Snappy),
        #[cfg(feature = "ccodecs")]
        CodecKind::Zstd => Some(Codec::Zstandard(apache_avro::ZstandardSettings::new(1))),
        #[cfg(feature = "ccodecs")]
        CodecKind::Bzip2 => Some(Codec::Bzip2(apache_avro::Bzip2Settings::new(1))),
        #[cfg(feature = "ccodecs")]
        CodecKind::Xz => Some(Codec::Xz(apache_avro::XzSettings::new(0))),
        #[cfg(not(feature = "ccodecs"))]
        _ => None,
    }
}

fn codec_name(k: CodecKind) -> &'static str {
    match k {
        CodecKind::Deflate => "deflate",
        CodecKind::Snappy => "snappy",
        CodecKind::Zstd => "zstandard",
        CodecKind::Bzip2 => "bzip2",
        CodecKind::Xz => "xz",
    }
}

fn classify<T>(r: Result<T, Error>, good: impl FnOnce(&T) -> Result<(), String>) -> Obs {
    match r {
        Ok(v) => match good(&v) {
            Ok(()) => Obs::Accept,
            Err(m) => Obs::Wrong(m),
        },
        Err(e) => {
            if matches!(e.details(), Details::MemoryAllocation { .. }) {
                Obs::RejectLimit
            } else {
                Obs::OtherErr(e.to_string().chars().take(80).collect())
            }
        }
    }
}

fn fixed_schema(n: u64) -> Result<Schema, Error> {
    Ok(Schema::Fixed(FixedSchema { name: Name::new("F")?, aliases: None, doc: None, size: n as usize, attributes: Default::default() }))
}

fn datum_reader<'s>(schema: &'s Schema, explicit_hr: bool) -> Result<GenericDatumReader<'s>, Error> {
    if explicit_hr { GenericDatumReader::builder(schema).human_readable(false).build() } else { GenericDatumReader::builder(schema).build() }
}

fn use_alloc(path: &AllocPath, n: u64, with_data: bool, explicit_hr: bool) -> Obs {
    let len = n as usize;
    let fill = |out: &mut Vec<u8>, byte: u8| {
        if with_data {
            out.resize(out.len() + len, byte);
        }
    };
    match path {
        AllocPath::DatumBytes | AllocPath::DatumString | AllocPath::FromAvroDatumBytes | AllocPath::DeserBytes | AllocPath::DeserString | AllocPath::SingleObjectBytes => {
            let is_str = matches!(path, AllocPath::DatumString | AllocPath::DeserString);
            let schema = if is_str { Schema::String } else { Schema::Bytes };
            let mut data = vec![];
            put_long(&mut data, n as i64);
            fill(&mut data, b'a');
            match path {
                AllocPath::DatumBytes | AllocPath::DatumString => {
                    let r = datum_reader(&schema, explicit_hr).and_then(|rd| rd.read_value(&mut &data[..]));
                    classify(r, |v| match v {
                        Value::Bytes(b) if !is_str && b.len() == len && b.iter().all(|x| *x == b'a') => Ok(()),
                        Value::String(s) if is_str && s.len() == len && s.bytes().all(|x| x == b'a') => Ok(()),
                        other => Err(format!("unexpected value of kind {:?}", std::mem::discriminant(other))),
                    })
                }
                AllocPath::FromAvroDatumBytes => {
                    #[allow(deprecated)]
                    let r = apache_avro::from_avro_datum(&schema, &mut &data[..], None);
                    classify(r, |v| match v {
                        Value::Bytes(b) if b.len() == len => Ok(()),
                        _ => Err("unexpected value".into()),
                    })
                }
                AllocPath::DeserBytes => {
                    let r = datum_reader(&schema, explicit_hr).and_then(|rd| rd.read_deser::<serde_bytes::ByteBuf>(&mut &data[..]));
                    classify(r, |b| if b.len() == len { Ok(()) } else { Err(format!("{} bytes instead of {len}", b.len())) })
                }
                AllocPath::DeserString => {
                    let r = datum_reader(&schema, explicit_hr).and_then(|rd| rd.read_deser::<String>(&mut &data[..]));
                    classify(r, |b| if b.len() == len { Ok(()) } else { Err(format!("{} bytes instead of {len}", b.len())) })
                }
                _ => {
                    let rd = if explicit_hr {
                        GenericSingleObjectReader::builder().schema(schema.clone()).human_readable(false).build()
                    } else {
                        GenericSingleObjectReader::builder().schema(schema.clone()).build()
                    };
                    // header: C3 01 + little-endian CRC-64-AVRO of the canonical form, taken from the library
                    let mut msg = vec![0xC3, 0x01];
                    msg.extend_from_slice(&schema.fingerprint::<apache_avro::rabin::Rabin>().bytes);
                    msg.extend_from_slice(&data);
                    let r = rd.and_then(|rd| rd.read_value(&mut &msg[..]));
                    classify(r, |v| match v {
                        Value::Bytes(b) if b.len() == len => Ok(()),
                        _ => Err("unexpected value".into()),
                    })
                }
            }
        }
        AllocPath::DatumFixed | AllocPath::DeserFixed => {
            let schema = match fixed_schema(n) {
                Ok(s) => s,
                Err(e) => return Obs::OtherErr(format!("schema: {e}")),
            };
            let mut data = vec![];
            fill(&mut data, 7);
            if matches!(path, AllocPath::DatumFixed) {
                let r = datum_reader(&schema, explicit_hr).and_then(|rd| rd.read_value(&mut &data[..]));
                classify(r, |v| match v {
                    Value::Fixed(l, b) if *l == len && b.len() == len => Ok(()),
                    _ => Err("unexpected value".into()),
                })
            } else {
                let r = datum_reader(&schema, explicit_hr).and_then(|rd| rd.read_deser::<Sink>(&mut &data[..]));
                classify(r, |_| Ok(()))
            }
        }
        AllocPath::DatumArrayNull | AllocPath::DeserArrayNull | AllocPath::DatumArrayNullSplit | AllocPath::DeserArrayNullSplit => {
            let schema = Schema::array(Schema::Null).build();
            let mut data = vec![];
            let split = matches!(path, AllocPath::DatumArrayNullSplit | AllocPath::DeserArrayNullSplit);
            if split && n >= 2 {
                put_long(&mut data, (n - n / 2) as i64);
                // the second block in the form with a negative count and a byte size
                put_long(&mut data, -((n / 2) as i64));
                put_long(&mut data, 0);
            } else if n > 0 {
                put_long(&mut data, n as i64);
            }
            data.push(0);
            if matches!(path, AllocPath::DatumArrayNull | AllocPath::DatumArrayNullSplit) {
                let r = datum_reader(&schema, explicit_hr).and_then(|rd| rd.read_value(&mut &data[..]));
                classify(r, |v| match v {
                    Value::Array(items) if items.len() == len => Ok(()),
                    _ => Err("unexpected value".into()),
                })
            } else {
                let r = datum_reader(&schema, explicit_hr).and_then(|rd| rd.read_deser::<Vec<()>>(&mut &data[..]));
                classify(r, |v| if v.len() == len { Ok(()) } else { Err(format!("{} items instead of {len}", v.len())) })
            }
        }
        AllocPath::DatumMapNull | AllocPath::DeserMapNull | AllocPath::DatumMapNullSplit => {
            let schema = Schema::map(Schema::Null).build();
            let mut data = vec![];
            if n > 0 {
                let first = if matches!(path, AllocPath::DatumMapNullSplit) && n >= 2 { n - n / 2 } else { n };
                put_long(&mut data, first as i64);
                for i in 0..n {
                    if i == first {
                        put_long(&mut data, (n - first) as i64);
                    }
                    // distinct 8-byte keys
                    put_long(&mut data, 8);
                    for shift in (0..8).rev() {
                        data.push(b'A' + ((i >> (4 * shift)) & 0xf) as u8);
                    }
                }
            }
            data.push(0);
            if matches!(path, AllocPath::DatumMapNull | AllocPath::DatumMapNullSplit) {
                let r = datum_reader(&schema, explicit_hr).and_then(|rd| rd.read_value(&mut &data[..]));
                classify(r, |v| match v {
                    Value::Map(_) => Ok(()),
                    _ => Err("unexpected value".into()),
                })
            } else {
                let r = datum_reader(&schema, explicit_hr).and_then(|rd| rd.read_deser::<Sink>(&mut &data[..]));
                classify(r, |_| Ok(()))
            }
        }
        AllocPath::BlockSize => {
            // one block of `n` bytes holding one `bytes` value that fills it
            let mut payload = vec![];
            if with_data && n >= 1 {
                // inner length l with len(varint(l)) + l == n
                let mut l = n - 1;
                loop {
                    let mut p = vec![];
                    put_long(&mut p, l as i64);
                    if p.len() as u64 + l == n {
                        payload = p;
                        payload.resize(payload.len() + l as usize, b'b');
                        break;
                    }
                    if l == 0 {
                        break;
                    }
                    l -= 1;
                }
            }
            let count = if with_data && n == 0 { 0 } else { 1 };
            let file = container("\"bytes\"", None, count, &payload, n as i64);
            let r = (|| {
                let rd = if explicit_hr { Reader::builder(&file[..]).human_readable(false).build()? } else { Reader::new(&file[..])? };
                let mut items = vec![];
                for it in rd {
                    items.push(it?);
                }
                Ok(items)
            })();
            classify(r, |items: &Vec<Value>| if items.len() == count as usize { Ok(()) } else { Err(format!("{} items", items.len())) })
        }
        AllocPath::BlockSizeAfterGrowth => {
            // three blocks of exactly 0.55 n, 0.65 n and n bytes, each filled by `bytes` values
            // (an empty value is put in front where no single value has the wanted encoded size)
            let fill_block = |size: u64| -> (i64, Vec<u8>) {
                for (count, lead) in [(1i64, 0u64), (2, 1), (3, 2)] {
                    let Some(rest) = size.checked_sub(lead) else { break };
                    for l in (rest.saturating_sub(3)..rest).rev() {
                        let mut p = vec![0u8; lead as usize];
                        put_long(&mut p, l as i64);
                        if p.len() as u64 + l == size {
                            p.resize(p.len() + l as usize, b'g');
                            return (count, p);
                        }
                    }
                }
                (size as i64, vec![0u8; size as usize])
            };
            let marker = [0xA5u8; 16];
            let (c1, b1) = fill_block(n * 55 / 100);
            let mut file = container("\"bytes\"", None, c1, &b1, b1.len() as i64);
            let mut expect = c1;
            for size in [n * 65 / 100, n] {
                let (c, b) = fill_block(size);
                expect += c;
                put_long(&mut file, c);
                put_long(&mut file, b.len() as i64);
                file.extend_from_slice(&b);
                file.extend_from_slice(&marker);
            }
            let r = (|| {
                let rd = if explicit_hr { Reader::builder(&file[..]).human_readable(false).build()? } else { Reader::new(&file[..])? };
                let mut items = 0usize;
                for it in rd {
                    it?;
                    items += 1;
                }
                Ok(items)
            })();
            classify(r, |items: &usize| if *items as i64 == expect { Ok(()) } else { Err(format!("{items} items instead of {expect}")) })
        }
        AllocPath::Decompress(k) => {
            let Some(codec) = lib_codec(*k) else { return Obs::OtherErr("codec not built".into()) };
            let mut buf = vec![0u8; len];
            if let Err(e) = codec.compress(&mut buf) {
                return Obs::OtherErr(format!("compress: {e}"));
            }
            let r = codec.decompress(&mut buf).map(|_| buf);
            classify(r, |b| if b.len() == len && b.iter().all(|x| *x == 0) { Ok(()) } else { Err(format!("{} bytes instead of {len}", b.len())) })
        }
        AllocPath::ContainerCompressed(k) => {
            let Some(codec) = lib_codec(*k) else { return Obs::OtherErr("codec not built".into()) };
            // the block is `n` zero bytes = n `bytes` values of length 0 (each one byte 0x00)
            let mut buf = vec![0u8; len];
            if let Err(e) = codec.compress(&mut buf) {
                return Obs::OtherErr(format!("compress: {e}"));
            }
            let file = container("\"bytes\"", Some(codec_name(*k)), n as i64, &buf, buf.len() as i64);
            let r = (|| {
                let rd = if explicit_hr { Reader::builder(&file[..]).human_readable(false).build()? } else { Reader::new(&file[..])? };
                let mut items = 0usize;
                for it in rd {
                    it?;
                    items += 1;
                }
                Ok(items)
            })();
            classify(r, |items: &usize| if *items == len { Ok(()) } else { Err(format!("{items} items instead of {len}")) })
        }
    }
}

fn use_hr(path: &HrPath) -> Obs {
    let seen = |r: Result<bool, Error>| match r {
        Ok(b) => Obs::Bool(b),
        Err(e) if matches!(e.details(), Details::MemoryAllocation { .. }) => Obs::RejectLimit,
        Err(e) => Obs::OtherErr(e.to_string().chars().take(80).collect()),
    };
    let from_text = |b: &[u8]| -> Result<bool, Error> {
        match b.last() {
            Some(b'H') => Ok(true),
            Some(b'B') => Ok(false),
            _ => Err(Details::ReadBoolean(std::io::Error::other("probe text not found")).into()),
        }
    };
    let string_datum = || vec![2u8, b'z'];
    match path {
        HrPath::ToValue => seen(apache_avro::to_value(HrProbe).and_then(|v| match v {
            Value::String(s) => from_text(s.as_bytes()),
            _ => from_text(b""),
        })),
        HrPath::FromValue => seen(apache_avro::from_value::<HrSeen>(&Value::String("z".into())).map(|h| h.0)),
        HrPath::DatumWriterSer => seen((|| {
            let schema = Schema::String;
            let w = GenericDatumWriter::builder(&schema).build()?;
            let mut out = vec![];
            w.write_ser(&mut out, &HrProbe)?;
            from_text(&out)
        })()),
        HrPath::DatumReaderDeser => seen((|| {
            let schema = Schema::String;
            let rd = GenericDatumReader::builder(&schema).build()?;
            Ok(rd.read_deser::<HrSeen>(&mut &string_datum()[..])?.0)
        })()),
        HrPath::ContainerWriterSer => seen((|| {
            let schema = Schema::String;
            let mut w = Writer::builder().schema(&schema).writer(Vec::new()).build()?;
            w.append_ser(HrProbe)?;
            let bytes = w.into_inner()?;
            // ... count, size, [len, text], marker(16)
            from_text(&bytes[..bytes.len().saturating_sub(16)])
        })()),
        HrPath::ContainerReaderDeser => seen((|| {
            let file = container("\"string\"", None, 1, &string_datum(), 2);
            let rd = Reader::new(&file[..])?;
            match rd.into_deser_iter::<HrSeen>().next() {
                Some(r) => Ok(r?.0),
                None => from_text(b""),
            }
        })()),
        HrPath::SingleWriterSer => seen((|| {
            let w = SpecificSingleObjectWriter::<HrProbe>::new()?;
            let mut out = vec![];
            w.write_ref(&HrProbe, &mut out)?;
            from_text(&out)
        })()),
        HrPath::SpecificDatumReaderDeser => seen((|| {
            let rd = apache_avro::reader::datum::SpecificDatumReader::<HrSeen>::builder().build()?;
            Ok(rd.read(&mut &string_datum()[..])?.0)
        })()),
        HrPath::SpecificSingleReaderDeser => seen((|| {
            let rd = apache_avro::SpecificSingleObjectReader::<HrSeen>::new()?;
            let mut msg = vec![0xC3, 0x01];
            msg.extend_from_slice(&Schema::String.fingerprint::<apache_avro::rabin::Rabin>().bytes);
            msg.extend_from_slice(&string_datum());
            Ok(rd.read(&mut &msg[..])?.0)
        })()),
        HrPath::SingleWriterBuilderSer => seen((|| {
            let w = SpecificSingleObjectWriter::<HrProbe>::builder().build();
            let mut out = vec![];
            w.write_ref(&HrProbe, &mut out)?;
            from_text(&out)
        })()),
        HrPath::WriteAvroDatumRef => seen((|| {
            let schema = Schema::String;
            let rs = apache_avro::schema::ResolvedSchema::try_from(&schema)?;
            let mut out = vec![];
            apache_avro::write_avro_datum_ref(&schema, rs.get_names(), &HrProbe, &mut out)?;
            from_text(&out)
        })()),
        HrPath::SingleReaderDeser => seen((|| {
            let schema = Schema::String;
            let rd = GenericSingleObjectReader::builder().schema(schema.clone()).build()?;
            let mut msg = vec![0xC3, 0x01];
            msg.extend_from_slice(&schema.fingerprint::<apache_avro::rabin::Rabin>().bytes);
            msg.extend_from_slice(&string_datum());
            Ok(rd.read_deser::<HrSeen>(&mut &msg[..])?.0)
        })()),
    }
}

fn use_validator(which: Setting, tag: u32, direct: bool) -> Obs {
    let n = special_name(which, tag);
    if direct {
        match which {
            Setting::Name => return Obs::Bool(Name::new(n.as_str()).is_ok()),
            Setting::Namespace => return Obs::Bool(Name::new_with_enclosing_namespace("ok", Some(n.as_str())).is_ok()),
            _ => {}
        }
    }
    let text = match which {
        Setting::Name => format!(r#"{{"type":"fixed","name":"{n}","size":1}}"#),
        Setting::Namespace => format!(r#"{{"type":"fixed","name":"ok","namespace":"{n}","size":1}}"#),
        Setting::EnumSym => format!(r#"{{"type":"enum","name":"E","symbols":["{n}"]}}"#),
        Setting::Field => format!(r#"{{"type":"record","name":"R","fields":[{{"name":"{n}","type":"int"}}]}}"#),
        _ => unreachable!(),
    };
    Obs::Bool(Schema::parse_str(&text).is_ok())
}

fn use_cmp(tag: u32) -> Obs {
    let d = Schema::Decimal(DecimalSchema { precision: tag as usize, scale: 0, inner: InnerDecimalSchema::Bytes });
    Obs::Bool(d == Schema::Bytes)
}

/// Perform one operation. Never panics itself; a library panic is the caller's to catch.
pub fn perform(op: &Op) -> Obs {
    match op {
        Op::SetAlloc(v) => Obs::Int(apache_avro::util::max_allocation_bytes(*v as usize) as u64),
        Op::SetHr(b) => Obs::Bool(apache_avro::util::set_serde_human_readable(*b)),
        Op::SetValidator { which, tag } => {
            let ok = match which {
                Setting::Name => set_schema_name_validator(Box::new(TagValidator { tag: *tag })).is_ok(),
                Setting::Namespace => set_schema_namespace_validator(Box::new(TagValidator { tag: *tag })).is_ok(),
                Setting::EnumSym => set_enum_symbol_name_validator(Box::new(TagValidator { tag: *tag })).is_ok(),
                Setting::Field => set_record_field_name_validator(Box::new(TagValidator { tag: *tag })).is_ok(),
                _ => unreachable!(),
            };
            if ok { Obs::SetOk } else { Obs::SetErr }
        }
        Op::SetCmp { tag } => {
            if set_schemata_equality_comparator(Box::new(TagEq { tag: *tag })).is_ok() { Obs::SetOk } else { Obs::SetErr }
        }
        Op::UseAlloc { path, n, with_data, explicit_hr } => use_alloc(path, *n, *with_data, *explicit_hr),
        Op::UseHr { path } => use_hr(path),
        Op::UseValidator { which, tag, direct } => use_validator(*which, *tag, *direct),
        Op::UseCmp { tag } => use_cmp(*tag),
        Op::UseNamespaceInherited { tag } => {
            let text = format!(r#"{{"type":"record","name":"no{tag}.Outer","fields":[{{"name":"f","type":{{"type":"fixed","name":"Inner","size":1}}}}]}}"#);
            Obs::Bool(Schema::parse_str(&text).is_ok())
        }
    }
}
