//! C19 - seeded scenario generator (shared by the baton engine and the Miri engine).

use super::exec;
use super::model::*;
use crate::rng::Rng;
use serde::{Deserialize, Serialize};

#[derive(Clone, Debug, Serialize, Deserialize)]
pub struct Case {
    pub threads: Vec<Vec<Op>>,
    /// pick i chooses runnable[schedule[i] % runnable.len()]; exhausted => lowest runnable id
    pub schedule: Vec<u8>,
}


pub const ALLOC_VALUES_SMALL: [u64; 7] = [0, 1, 7, 56, 100, 160, 1000];
pub const ALLOC_VALUES: [u64; 14] = [0, 1, 7, 56, 100, 1000, 4096, 65536, 1 << 20, (1 << 20) + 1, 1 << 31, DEFAULT_LIMIT, DEFAULT_LIMIT + 1, u64::MAX];

pub struct GenCfg {
    /// largest length / count that is materialised with data
    pub max_data: u64,
    /// largest declared-only length
    pub max_declared: u64,
    pub c_codecs: bool,
    /// proposals for the allocation limit
    pub alloc_values: &'static [u64],
    /// include the validator / comparator settings (schema parsing is slow under an interpreter)
    pub validators: bool,
}

pub fn gen_case(rng: &mut Rng, cfg: &GenCfg) -> Case {
    let mut wr = rng.fork("workload");
    let mut sr = rng.fork("sched");
    let nthreads = wr.range(2, 4) as usize;
    // focus on a few settings so that operations actually meet
    let mut focus: Vec<Setting> = vec![];
    let nfocus = *wr.pick(&[1usize, 1, 2, 2, 3]);
    while focus.len() < nfocus {
        let s = *wr.pick(&[Setting::Alloc, Setting::Alloc, Setting::Alloc, Setting::Hr, Setting::Name, Setting::Namespace, Setting::EnumSym, Setting::Field, Setting::Cmp]);
        if !cfg.validators && !matches!(s, Setting::Alloc | Setting::Hr | Setting::Cmp) {
            continue;
        }
        if !focus.contains(&s) {
            focus.push(s);
        }
    }
    // first pass: shapes
    let mut shapes: Vec<Vec<(Setting, bool)>> = vec![];
    for _ in 0..nthreads {
        let n = wr.range(1, 3) as usize;
        shapes.push((0..n).map(|_| (*wr.pick(&focus), wr.chance(9, 20))).collect());
    }
    // setter proposals, unique per operation where the domain allows
    let mut alloc_vals: Vec<u64> = vec![];
    let mut next_tag = 1u32;
    let mut tags: Vec<(Setting, u32)> = vec![];
    let mut threads: Vec<Vec<Op>> = vec![];
    for sh in &shapes {
        let mut ops = vec![];
        for (s, is_set) in sh {
            if *is_set {
                ops.push(match s {
                    Setting::Alloc => {
                        let mut v = *wr.pick(cfg.alloc_values);
                        let mut guard = 0;
                        while alloc_vals.contains(&v) && guard < 20 {
                            v = *wr.pick(cfg.alloc_values);
                            guard += 1;
                        }
                        alloc_vals.push(v);
                        Op::SetAlloc(v)
                    }
                    Setting::Hr => Op::SetHr(wr.chance(2, 3)),
                    Setting::Cmp => {
                        next_tag += 1;
                        tags.push((*s, next_tag));
                        Op::SetCmp { tag: next_tag }
                    }
                    which => {
                        next_tag += 1;
                        tags.push((*which, next_tag));
                        Op::SetValidator { which: *which, tag: next_tag }
                    }
                });
            } else {
                // placeholder, filled in the second pass when all proposals are known
                ops.push(Op::UseCmp { tag: u32::MAX - (*s as u32) });
            }
        }
        threads.push(ops);
    }
    let sizes = exec::sizes();
    for (ti, sh) in shapes.iter().enumerate() {
        for (oi, (s, is_set)) in sh.iter().enumerate() {
            if *is_set {
                continue;
            }
            threads[ti][oi] = match s {
                Setting::Alloc => gen_use_alloc(&mut wr, &alloc_vals, &sizes, cfg),
                Setting::Hr => Op::UseHr {
                    path: *wr.pick(&[
                        HrPath::ToValue,
                        HrPath::FromValue,
                        HrPath::DatumWriterSer,
                        HrPath::DatumReaderDeser,
                        HrPath::ContainerWriterSer,
                        HrPath::ContainerReaderDeser,
                        HrPath::SingleWriterSer,
                        HrPath::SingleReaderDeser,
                        HrPath::SpecificDatumReaderDeser,
                        HrPath::SpecificSingleReaderDeser,
                        HrPath::SingleWriterBuilderSer,
                        HrPath::WriteAvroDatumRef,
                    ]),
                },
                Setting::Cmp => {
                    let mine: Vec<u32> = tags.iter().filter(|(w, _)| *w == Setting::Cmp).map(|(_, t)| *t).collect();
                    let tag = if mine.is_empty() || wr.chance(1, 5) { 999 } else { *wr.pick(&mine) };
                    Op::UseCmp { tag }
                }
                which => {
                    let mine: Vec<u32> = tags.iter().filter(|(w, _)| w == which).map(|(_, t)| *t).collect();
                    let tag = if mine.is_empty() || wr.chance(1, 5) { 999 } else { *wr.pick(&mine) };
                    if *which == Setting::Namespace && wr.chance(1, 3) {
                        Op::UseNamespaceInherited { tag }
                    } else {
                        Op::UseValidator { which: *which, tag, direct: wr.chance(1, 3) }
                    }
                }
            };
        }
    }
    let total: usize = threads.iter().map(|t| t.len()).sum();
    let schedule = match sr.below(6) {
        0 => vec![0u8; total],
        _ => (0..total).map(|_| sr.below(256) as u8).collect(),
    };
    Case { threads, schedule }
}

fn gen_use_alloc(wr: &mut Rng, alloc_vals: &[u64], sizes: &Sizes, cfg: &GenCfg) -> Op {
    let mut cands: Vec<u64> = alloc_vals.to_vec();
    cands.push(DEFAULT_LIMIT);
    let mut paths = vec![
        AllocPath::DatumBytes,
        AllocPath::DatumString,
        AllocPath::DatumFixed,
        AllocPath::DatumArrayNull,
        AllocPath::DatumMapNull,
        AllocPath::DatumArrayNullSplit,
        AllocPath::DatumMapNullSplit,
        AllocPath::DeserArrayNullSplit,
        AllocPath::FromAvroDatumBytes,
        AllocPath::DeserBytes,
        AllocPath::DeserString,
        AllocPath::DeserFixed,
        AllocPath::DeserArrayNull,
        AllocPath::DeserMapNull,
        AllocPath::BlockSize,
        AllocPath::BlockSizeAfterGrowth,
        AllocPath::BlockSizeAfterGrowth,
        AllocPath::SingleObjectBytes,
        AllocPath::Decompress(CodecKind::Deflate),
        AllocPath::Decompress(CodecKind::Snappy),
        AllocPath::ContainerCompressed(CodecKind::Deflate),
        AllocPath::ContainerCompressed(CodecKind::Snappy),
    ];
    if cfg.c_codecs {
        for k in [CodecKind::Zstd, CodecKind::Bzip2, CodecKind::Xz] {
            paths.push(AllocPath::Decompress(k));
            paths.push(AllocPath::ContainerCompressed(k));
        }
    }
    let explicit_hr = wr.chance(1, 2);
    for _ in 0..12 {
        let path = *wr.pick(&paths);
        let c = *wr.pick(&cands);
        let unit = match path {
            AllocPath::DatumArrayNull | AllocPath::DatumArrayNullSplit => sizes.value,
            AllocPath::DatumMapNull | AllocPath::DatumMapNullSplit => sizes.entry,
            _ => 1,
        };
        // the largest n within the limit and its neighbours
        let edge = c / unit;
        let n = match wr.below(4) {
            0 => edge.saturating_sub(1),
            1 | 2 => edge,
            _ => edge.saturating_add(1),
        };
        let map_like = matches!(path, AllocPath::DatumMapNull | AllocPath::DeserMapNull | AllocPath::DatumMapNullSplit);
        let data_cap = if map_like { cfg.max_data / 16 } else { cfg.max_data };
        if path == AllocPath::BlockSizeAfterGrowth && n < 16 {
            continue;
        }
        if n <= data_cap {
            return Op::UseAlloc { path, n, with_data: true, explicit_hr };
        }
        // the block buffer is filled with zeros eagerly (Vec::resize), the others are lazily zeroed allocations
        let declared_cap = if path == AllocPath::BlockSize { cfg.max_declared.min(64 << 20) } else { cfg.max_declared };
        if path.declared_only_ok() && n <= declared_cap {
            return Op::UseAlloc { path, n, with_data: false, explicit_hr };
        }
    }
    // every candidate was too large to exercise at its edge: a small length that any large limit admits
    let path = *wr.pick(&paths);
    let path = if path == AllocPath::BlockSizeAfterGrowth { AllocPath::BlockSize } else { path };
    let n = *wr.pick(&[0u64, 1, 5, 300]);
    Op::UseAlloc { path, n, with_data: true, explicit_hr }
}



/// A scenario for the preempting engine: every thread's first operation is on the same setting
/// (a first-use race can only happen there), at least one of them a setter, each followed by a
/// user of that setting.
pub fn gen_race_case(rng: &mut Rng, setting: Setting, setters_only_first: bool, cfg: &GenCfg) -> Case {
    let mut wr = rng.fork("race");
    let nthreads = wr.range(2, 3) as usize;
    let sizes = exec::sizes();
    let mut alloc_vals: Vec<u64> = vec![];
    let mut tag = 1u32;
    let mut tags = vec![];
    let mut firsts: Vec<Option<Op>> = vec![];
    for t in 0..nthreads {
        // thread 0 starts with a setter; thread 1 with a first use, or (`setters_only_first`) with a
        // second setter; a third thread with either
        let setter = t == 0 || (t == 1 && setters_only_first) || (t > 1 && wr.chance(1, 2));
        if !setter {
            firsts.push(None);
            continue;
        }
        firsts.push(Some(match setting {
            Setting::Alloc => {
                let mut v = *wr.pick(cfg.alloc_values);
                let mut guard = 0;
                while alloc_vals.contains(&v) && guard < 20 {
                    v = *wr.pick(cfg.alloc_values);
                    guard += 1;
                }
                alloc_vals.push(v);
                Op::SetAlloc(v)
            }
            Setting::Hr => Op::SetHr(t % 2 == 0),
            Setting::Cmp => {
                tag += 1;
                tags.push(tag);
                Op::SetCmp { tag }
            }
            which => {
                tag += 1;
                tags.push(tag);
                Op::SetValidator { which, tag }
            }
        }));
    }
    let user = |wr: &mut Rng| -> Op {
        match setting {
            Setting::Alloc => gen_use_alloc(wr, &alloc_vals, &sizes, cfg),
            Setting::Hr => Op::UseHr { path: *wr.pick(&[HrPath::ToValue, HrPath::FromValue, HrPath::DatumWriterSer, HrPath::SingleWriterSer]) },
            Setting::Cmp => Op::UseCmp { tag: if tags.is_empty() || wr.chance(1, 4) { 999 } else { *wr.pick(&tags) } },
            which => Op::UseValidator { which, tag: if tags.is_empty() || wr.chance(1, 6) { 999 } else { *wr.pick(&tags) }, direct: true },
        }
    };
    let mut threads = vec![];
    for f in firsts {
        let mut ops = vec![];
        match f {
            Some(op) => ops.push(op),
            None => ops.push(user(&mut wr)),
        }
        if wr.chance(2, 3) {
            ops.push(user(&mut wr));
        }
        threads.push(ops);
    }
    Case { threads, schedule: vec![] }
}
