//! C19 - process-wide settings are first-set-wins, uniformly enforced and thread-safe.
//!
//! Baton engine: every run is one fresh child process (the cells are write-once per process).
//! In the child, 2-4 real caller threads each hold a script of operations on the settings
//! (setters with distinguishable values, users whose behaviour reveals the value in force);
//! a baton scheduler releases exactly one thread at a time for exactly one operation, the
//! recorded schedule (not the OS) deciding who goes next. The history is judged by the parent
//! against the write-once-register model of `model.rs`.

pub mod exec;
pub mod model;

use crate::harness::{Ctx, Failure, Property, Tier, guarded};
use crate::rng::Rng;
use model::*;
use serde::{Deserialize, Serialize};
use serde_json::{Value as J, json};
use std::io::Write;
use std::sync::{Arc, Condvar, Mutex};

#[derive(Clone, Debug, Serialize, Deserialize)]
pub struct Case {
    pub threads: Vec<Vec<Op>>,
    /// pick i chooses runnable[schedule[i] % runnable.len()]; exhausted => lowest runnable id
    pub schedule: Vec<u8>,
}

// ------------------------------------------------------------------------------------------------
// child side: the baton

struct Baton {
    m: Mutex<BatonState>,
    cv: Condvar,
}

struct BatonState {
    turn: Option<usize>,
    seq: u64,
    events: Vec<Event>,
}

/// Run the scenario in this process. Must be called at most once per process.
pub fn run_scenario(case: &Case) -> History {
    let baton = Arc::new(Baton { m: Mutex::new(BatonState { turn: None, seq: 0, events: vec![] }), cv: Condvar::new() });
    let mut handles = vec![];
    for (tid, script) in case.threads.iter().enumerate() {
        let b = baton.clone();
        let script = script.clone();
        handles.push(std::thread::spawn(move || {
            for (index, op) in script.into_iter().enumerate() {
                // wait for the baton
                let invoke = {
                    let mut st = b.m.lock().unwrap();
                    while st.turn != Some(tid) {
                        st = b.cv.wait(st).unwrap();
                    }
                    st.seq += 1;
                    st.seq
                };
                let obs = match guarded(|| exec::perform(&op)) {
                    Ok(o) => o,
                    Err(p) => Obs::Panic(p.chars().take(160).collect()),
                };
                let mut st = b.m.lock().unwrap();
                st.seq += 1;
                let ret = st.seq;
                st.events.push(Event { thread: tid, index, op, invoke, ret, obs });
                st.turn = None;
                b.cv.notify_all();
            }
        }));
    }
    let mut remaining: Vec<usize> = case.threads.iter().map(|s| s.len()).collect();
    let mut step = 0usize;
    loop {
        let runnable: Vec<usize> = (0..remaining.len()).filter(|t| remaining[*t] > 0).collect();
        if runnable.is_empty() {
            break;
        }
        let pick = case.schedule.get(step).map(|b| *b as usize % runnable.len()).unwrap_or(0);
        step += 1;
        let t = runnable[pick];
        remaining[t] -= 1;
        let mut st = baton.m.lock().unwrap();
        st.turn = Some(t);
        baton.cv.notify_all();
        while st.turn.is_some() {
            st = baton.cv.wait(st).unwrap();
        }
    }
    for h in handles {
        let _ = h.join();
    }
    let st = baton.m.lock().unwrap();
    History { sizes: exec::sizes(), events: st.events.clone() }
}

/// Child entry: `avrosim c19exec` - case JSON on stdin, history JSON on stdout.
pub fn exec_main() -> i32 {
    let mut text = String::new();
    if std::io::Read::read_to_string(&mut std::io::stdin(), &mut text).is_err() {
        println!("HARNESS-ERROR cannot read the case");
        return 2;
    }
    let case: Case = match serde_json::from_str(&text) {
        Ok(c) => c,
        Err(e) => {
            println!("HARNESS-ERROR cannot parse the case: {e}");
            return 2;
        }
    };
    // backstop only: a run that makes no progress for 30 s is reported as a hang
    std::thread::spawn(|| {
        std::thread::sleep(std::time::Duration::from_secs(30));
        eprintln!("HANG");
        std::process::exit(3);
    });
    let h = run_scenario(&case);
    let out = serde_json::to_string(&h).unwrap();
    let mut so = std::io::stdout();
    let _ = so.write_all(out.as_bytes());
    let _ = so.write_all(b"\n");
    0
}

// ------------------------------------------------------------------------------------------------
// parent side

pub struct C19;

fn run_child(case: &Case) -> Result<History, Failure> {
    let exe = std::env::current_exe().expect("current_exe");
    let mut child = std::process::Command::new(exe)
        .arg("c19exec")
        .stdin(std::process::Stdio::piped())
        .stdout(std::process::Stdio::piped())
        .stderr(std::process::Stdio::piped())
        .spawn()
        .map_err(|e| Failure::new("harness-spawn", "C19 harness-spawn", format!("cannot spawn child: {e}")))?;
    {
        let mut si = child.stdin.take().unwrap();
        let _ = si.write_all(serde_json::to_string(case).unwrap().as_bytes());
    }
    let out = child.wait_with_output().map_err(|e| Failure::new("harness-spawn", "C19 harness-spawn", format!("cannot wait for child: {e}")))?;
    let stderr = String::from_utf8_lossy(&out.stderr);
    match out.status.code() {
        Some(0) => {}
        Some(3) => return Err(Failure::new("hang", "C19 hang", "the process made no progress for 30 s".to_string())),
        Some(2) => return Err(Failure::new("harness-child", "C19 harness-child", String::from_utf8_lossy(&out.stdout).to_string())),
        other => {
            let line = stderr.lines().find(|l| l.starts_with("ALLOC-ABORT")).unwrap_or("").to_string();
            return Err(Failure::new("abort", "C19 abort", format!("the process died (status {other:?}) {line} {}", stderr.lines().last().unwrap_or(""))));
        }
    }
    let text = String::from_utf8_lossy(&out.stdout);
    serde_json::from_str::<History>(text.trim()).map_err(|e| Failure::new("harness-child", "C19 harness-child", format!("unreadable history: {e}")))
}

fn winner_kind(h: &History, s: Setting) -> &'static str {
    let first = h.events.iter().filter(|e| e.op.touches().contains(&s)).min_by_key(|e| e.invoke);
    match first {
        Some(e) if e.op.is_setter() && e.op.primary() == s => "setter",
        Some(_) => "user-default",
        None => "untouched",
    }
}

pub fn account(h: &History, case: &Case, ctx: &mut Ctx) {
    let mut order = String::new();
    let mut sorted: Vec<&Event> = h.events.iter().collect();
    sorted.sort_by_key(|e| e.invoke);
    for e in &sorted {
        ctx.eval();
        ctx.steps(1);
        order.push_str(&format!("{}:{};", e.thread, e.op.kind()));
        ctx.ev(&format!("{}:{}:{:?}", e.thread, e.index, e.obs));
        match (&e.op, &e.obs) {
            (Op::SetAlloc(v), Obs::Int(x)) if x != v => ctx.agg.count("probe.setter_lost_the_race.alloc"),
            (Op::SetHr(v), Obs::Bool(x)) if x != v => ctx.agg.count("probe.setter_lost_the_race.hr"),
            (Op::SetValidator { .. }, Obs::SetErr) | (Op::SetCmp { .. }, Obs::SetErr) => ctx.agg.count("probe.setter_lost_the_race.validator_or_comparator"),
            (Op::UseAlloc { .. }, Obs::RejectLimit) => ctx.agg.count("probe.limit_rejected"),
            (Op::UseAlloc { with_data: true, .. }, Obs::Accept) => ctx.agg.count("probe.length_accepted_and_delivered"),
            (Op::UseAlloc { with_data: false, .. }, Obs::OtherErr(_)) => ctx.agg.count("probe.declared_length_accepted_without_data"),
            (Op::UseValidator { .. }, Obs::Bool(true)) | (Op::UseCmp { .. }, Obs::Bool(true)) => ctx.agg.count("probe.custom_validator_or_comparator_in_force_seen"),
            (Op::UseHr { .. }, Obs::Bool(true)) => ctx.agg.count("probe.human_readable_true_seen"),
            _ => {}
        }
        if let Op::UseAlloc { path, .. } = &e.op {
            ctx.agg.count(&format!("path.{path:?}"));
        }
        if let Op::UseHr { path } = &e.op {
            ctx.agg.count(&format!("path.hr.{path:?}"));
        }
    }
    ctx.agg.count("fault.thread_preempt(baton handovers)");
    ctx.agg.add("sched.handovers", sorted.len() as u64);
    ctx.agg.state(format!("il|{order}"));
    for s in Setting::ALL {
        let w = winner_kind(h, s);
        if w != "untouched" {
            ctx.agg.state(format!("win|{}|{w}|{}", s.name(), case.threads.len()));
            if w == "user-default" && h.events.iter().any(|e| e.op.is_setter() && e.op.primary() == s) {
                ctx.agg.count("probe.user_initialised_default_before_setter");
            }
        }
    }
}

pub fn failure_of(v: Verdict) -> Failure {
    let s = v.setting.map(|s| s.name()).unwrap_or("-");
    Failure::new(v.class, format!("C19 {} setting={s} op={}", v.class, v.op_kind), v.detail)
}

const ALLOC_VALUES: [u64; 14] = [0, 1, 7, 56, 100, 1000, 4096, 65536, 1 << 20, (1 << 20) + 1, 1 << 31, DEFAULT_LIMIT, DEFAULT_LIMIT + 1, u64::MAX];

pub struct GenCfg {
    /// largest length / count that is materialised with data
    pub max_data: u64,
    /// largest declared-only length
    pub max_declared: u64,
    pub c_codecs: bool,
}

pub fn gen_case(rng: &mut Rng, cfg: &GenCfg) -> Case {
    let mut wr = rng.fork("workload");
    let mut sr = rng.fork("sched");
    let nthreads = wr.range(2, 4) as usize;
    // focus on a few settings so that operations actually meet
    let mut focus: Vec<Setting> = vec![];
    let nfocus = *wr.pick(&[1usize, 1, 2, 2, 3]);
    while focus.len() < nfocus {
        let s = *wr.pick(&[Setting::Alloc, Setting::Alloc, Setting::Alloc, Setting::Hr, Setting::Name, Setting::Namespace, Setting::EnumSym, Setting::Field, Setting::Cmp]);
        if !focus.contains(&s) {
            focus.push(s);
        }
    }
    // first pass: shapes
    let mut shapes: Vec<Vec<(Setting, bool)>> = vec![];
    for _ in 0..nthreads {
        let n = wr.range(1, 3) as usize;
        shapes.push((0..n).map(|_| (*wr.pick(&focus), wr.chance(9, 20))).collect());
    }
    // setter proposals, unique per operation where the domain allows
    let mut alloc_vals: Vec<u64> = vec![];
    let mut next_tag = 1u32;
    let mut tags: Vec<(Setting, u32)> = vec![];
    let mut threads: Vec<Vec<Op>> = vec![];
    for sh in &shapes {
        let mut ops = vec![];
        for (s, is_set) in sh {
            if *is_set {
                ops.push(match s {
                    Setting::Alloc => {
                        let mut v = *wr.pick(&ALLOC_VALUES);
                        let mut guard = 0;
                        while alloc_vals.contains(&v) && guard < 20 {
                            v = *wr.pick(&ALLOC_VALUES);
                            guard += 1;
                        }
                        alloc_vals.push(v);
                        Op::SetAlloc(v)
                    }
                    Setting::Hr => Op::SetHr(wr.chance(2, 3)),
                    Setting::Cmp => {
                        next_tag += 1;
                        tags.push((*s, next_tag));
                        Op::SetCmp { tag: next_tag }
                    }
                    which => {
                        next_tag += 1;
                        tags.push((*which, next_tag));
                        Op::SetValidator { which: *which, tag: next_tag }
                    }
                });
            } else {
                // placeholder, filled in the second pass when all proposals are known
                ops.push(Op::UseCmp { tag: u32::MAX - (*s as u32) });
            }
        }
        threads.push(ops);
    }
    let sizes = exec::sizes();
    for (ti, sh) in shapes.iter().enumerate() {
        for (oi, (s, is_set)) in sh.iter().enumerate() {
            if *is_set {
                continue;
            }
            threads[ti][oi] = match s {
                Setting::Alloc => gen_use_alloc(&mut wr, &alloc_vals, &sizes, cfg),
                Setting::Hr => Op::UseHr {
                    path: *wr.pick(&[
                        HrPath::ToValue,
                        HrPath::FromValue,
                        HrPath::DatumWriterSer,
                        HrPath::DatumReaderDeser,
                        HrPath::ContainerWriterSer,
                        HrPath::ContainerReaderDeser,
                        HrPath::SingleWriterSer,
                        HrPath::SingleReaderDeser,
                    ]),
                },
                Setting::Cmp => {
                    let mine: Vec<u32> = tags.iter().filter(|(w, _)| *w == Setting::Cmp).map(|(_, t)| *t).collect();
                    let tag = if mine.is_empty() || wr.chance(1, 5) { 999 } else { *wr.pick(&mine) };
                    Op::UseCmp { tag }
                }
                which => {
                    let mine: Vec<u32> = tags.iter().filter(|(w, _)| w == which).map(|(_, t)| *t).collect();
                    let tag = if mine.is_empty() || wr.chance(1, 5) { 999 } else { *wr.pick(&mine) };
                    Op::UseValidator { which: *which, tag }
                }
            };
        }
    }
    let total: usize = threads.iter().map(|t| t.len()).sum();
    let schedule = match sr.below(6) {
        0 => vec![0u8; total],
        _ => (0..total).map(|_| sr.below(256) as u8).collect(),
    };
    Case { threads, schedule }
}

fn gen_use_alloc(wr: &mut Rng, alloc_vals: &[u64], sizes: &Sizes, cfg: &GenCfg) -> Op {
    let mut cands: Vec<u64> = alloc_vals.to_vec();
    cands.push(DEFAULT_LIMIT);
    let mut paths = vec![
        AllocPath::DatumBytes,
        AllocPath::DatumString,
        AllocPath::DatumFixed,
        AllocPath::DatumArrayNull,
        AllocPath::DatumMapNull,
        AllocPath::FromAvroDatumBytes,
        AllocPath::DeserBytes,
        AllocPath::DeserString,
        AllocPath::DeserFixed,
        AllocPath::DeserArrayNull,
        AllocPath::DeserMapNull,
        AllocPath::BlockSize,
        AllocPath::SingleObjectBytes,
        AllocPath::Decompress(CodecKind::Deflate),
        AllocPath::Decompress(CodecKind::Snappy),
        AllocPath::ContainerCompressed(CodecKind::Deflate),
        AllocPath::ContainerCompressed(CodecKind::Snappy),
    ];
    if cfg.c_codecs {
        for k in [CodecKind::Zstd, CodecKind::Bzip2, CodecKind::Xz] {
            paths.push(AllocPath::Decompress(k));
            paths.push(AllocPath::ContainerCompressed(k));
        }
    }
    let explicit_hr = wr.chance(1, 2);
    for _ in 0..12 {
        let path = *wr.pick(&paths);
        let c = *wr.pick(&cands);
        let unit = match path {
            AllocPath::DatumArrayNull => sizes.value,
            AllocPath::DatumMapNull => sizes.entry,
            _ => 1,
        };
        // the largest n within the limit and its neighbours
        let edge = c / unit;
        let n = match wr.below(4) {
            0 => edge.saturating_sub(1),
            1 | 2 => edge,
            _ => edge.saturating_add(1),
        };
        let map_like = matches!(path, AllocPath::DatumMapNull | AllocPath::DeserMapNull);
        let data_cap = if map_like { cfg.max_data / 16 } else { cfg.max_data };
        if n <= data_cap {
            return Op::UseAlloc { path, n, with_data: true, explicit_hr };
        }
        // the block buffer is filled with zeros eagerly (Vec::resize), the others are lazily zeroed allocations
        let declared_cap = if path == AllocPath::BlockSize { cfg.max_declared.min(64 << 20) } else { cfg.max_declared };
        if path.declared_only_ok() && n <= declared_cap {
            return Op::UseAlloc { path, n, with_data: false, explicit_hr };
        }
    }
    // every candidate was too large to exercise at its edge: a small length that any large limit admits
    let path = *wr.pick(&paths);
    let n = *wr.pick(&[0u64, 1, 5, 300]);
    Op::UseAlloc { path, n, with_data: true, explicit_hr }
}

impl Property for C19 {
    type Case = Case;
    fn id(&self) -> &'static str {
        "C19"
    }
    fn level(&self) -> &'static str {
        "exploration"
    }
    fn rule(&self) -> String {
        "One fresh child process per run (the seven settings are write-once per process). In the child 2-4 real caller threads each \
         hold a seeded script of 1-3 operations on a seeded subset of the settings: setters with distinguishable proposals (limits from \
         {0, 1, 7, 56, 100, 1000, 4096, 65536, 1 MiB, 1 MiB+1, 2^31, default, default+1, usize::MAX}, validators / comparators that \
         accept one extra tagged name) and users whose outcome reveals the value in force (a declared length or count at limit-1 / limit \
         / limit+1 through 23 decoding paths: generic and serde datum readers for bytes, string, fixed, arrays and maps, \
         from_avro_datum, container block size, Codec::decompress and container blocks over five codecs, single-object reader; the \
         human-readable flag through to_value / from_value and the datum, container and single-object writers and readers; parsing a \
         schema that only one validator accepts; comparing two schemas that only one comparator equates). A baton scheduler releases one \
         thread at a time for one operation; the seeded schedule, not the OS, decides who goes next; invoke and return are stamped with \
         a global sequence number. One evaluation = one operation. distinct_nontrivial counts distinct interleavings (sequence of \
         (thread, operation kind)) plus distinct (setting, who decided it: setter or a user's default, number of threads) triples."
            .into()
    }
    fn assumptions(&self) -> Vec<String> {
        vec![
            "the baton interleaves at operation granularity: every operation is atomic with respect to the others (preemption inside library code is the Miri engine's job)".into(),
            "an operation's interval is used for every setting it reads; a user that reads a setting first initialises it to the documented default".into(),
            "size_of::<Value>() and size_of::<(String, Value)>() are taken from the build under test to place array/map counts at the limit".into(),
        ]
    }
    fn components(&self) -> J {
        json!({"real": ["util::max_allocation_bytes / set_serde_human_readable and every guard reading them", "validator and comparator registries", "std::sync::OnceLock", "OS threads", "all decoders, codecs, serde serializer/deserializer"],
               "simulated": ["thread release order (baton)", "process boundary (one child per run)"],
               "reference": ["OnceCellModel (write-once register) judge"]})
    }
    fn runs(&self, tier: Tier) -> u64 {
        match tier {
            Tier::Quick => 12_000,
            Tier::Thorough => 1_500_000,
        }
    }
    fn required_probes(&self) -> Vec<&'static str> {
        vec![
            "probe.setter_lost_the_race.alloc",
            "probe.setter_lost_the_race.hr",
            "probe.setter_lost_the_race.validator_or_comparator",
            "probe.user_initialised_default_before_setter",
            "probe.limit_rejected",
            "probe.length_accepted_and_delivered",
            "probe.declared_length_accepted_without_data",
            "probe.custom_validator_or_comparator_in_force_seen",
            "probe.human_readable_true_seen",
        ]
    }

    fn generate(&self, rng: &mut Rng, _run: u64, _tier: Tier) -> Option<Case> {
        Some(gen_case(rng, &GenCfg { max_data: 1 << 20, max_declared: (1 << 32) + 2, c_codecs: true }))
    }

    fn execute(&self, case: &Case, ctx: &mut Ctx) -> Option<Failure> {
        let h = match run_child(case) {
            Ok(h) => h,
            Err(f) => return Some(f),
        };
        account(&h, case, ctx);
        judge(&h).map(failure_of)
    }

    fn shrink(&self, case: &Case, _f: &Failure) -> Vec<Case> {
        let mut out = vec![];
        for t in 0..case.threads.len() {
            if case.threads.len() > 1 {
                let mut c = case.clone();
                c.threads.remove(t);
                out.push(c);
            }
        }
        for t in 0..case.threads.len() {
            for o in 0..case.threads[t].len() {
                let mut c = case.clone();
                c.threads[t].remove(o);
                if c.threads[t].is_empty() && c.threads.len() > 1 {
                    c.threads.remove(t);
                }
                if c.threads.iter().any(|s| !s.is_empty()) {
                    out.push(c);
                }
            }
        }
        if case.schedule.iter().any(|b| *b != 0) {
            let mut c = case.clone();
            c.schedule = vec![0; case.schedule.len()];
            out.push(c);
            for i in 0..case.schedule.len() {
                if case.schedule[i] != 0 {
                    let mut c = case.clone();
                    c.schedule[i] = 0;
                    out.push(c);
                }
            }
        }
        for t in 0..case.threads.len() {
            for o in 0..case.threads[t].len() {
                if let Op::UseAlloc { path, n, with_data, explicit_hr } = &case.threads[t][o] {
                    if !*explicit_hr {
                        let mut c = case.clone();
                        c.threads[t][o] = Op::UseAlloc { path: *path, n: *n, with_data: *with_data, explicit_hr: true };
                        out.push(c);
                    }
                }
            }
        }
        out
    }

    fn sample(&self, case: &Case) -> J {
        json!({"threads": case.threads, "schedule": case.schedule})
    }
}
