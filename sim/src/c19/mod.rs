//! C19 - process-wide settings are first-set-wins, uniformly enforced and thread-safe.
//!
//! Baton engine: every run is one fresh child process (the cells are write-once per process).
//! In the child, 2-4 real caller threads each hold a script of operations on the settings
//! (setters with distinguishable values, users whose behaviour reveals the value in force);
//! a baton scheduler releases exactly one thread at a time for exactly one operation, the
//! recorded schedule (not the OS) deciding who goes next. The history is judged by the parent
//! against the write-once-register model of `model.rs`.

pub mod exec;
pub mod gen;
pub mod model;

use crate::harness::{Ctx, Failure, Property, Tier, guarded};
use crate::rng::Rng;
pub use gen::{Case, GenCfg, gen_case};
use model::*;
use serde_json::{Value as J, json};
use std::io::Write;
use std::sync::{Arc, Condvar, Mutex};

// ------------------------------------------------------------------------------------------------
// child side: the baton

struct Baton {
    m: Mutex<BatonState>,
    cv: Condvar,
}

struct BatonState {
    turn: Option<usize>,
    seq: u64,
    events: Vec<Event>,
}

/// Run the scenario in this process. Must be called at most once per process.
pub fn run_scenario(case: &Case) -> History {
    let baton = Arc::new(Baton { m: Mutex::new(BatonState { turn: None, seq: 0, events: vec![] }), cv: Condvar::new() });
    let mut handles = vec![];
    for (tid, script) in case.threads.iter().enumerate() {
        let b = baton.clone();
        let script = script.clone();
        handles.push(std::thread::spawn(move || {
            for (index, op) in script.into_iter().enumerate() {
                // wait for the baton
                let invoke = {
                    let mut st = b.m.lock().unwrap();
                    while st.turn != Some(tid) {
                        st = b.cv.wait(st).unwrap();
                    }
                    st.seq += 1;
                    st.seq
                };
                let obs = match guarded(|| exec::perform(&op)) {
                    Ok(o) => o,
                    Err(p) => Obs::Panic(p.chars().take(160).collect()),
                };
                let mut st = b.m.lock().unwrap();
                st.seq += 1;
                let ret = st.seq;
                st.events.push(Event { thread: tid, index, op, invoke, ret, obs });
                st.turn = None;
                b.cv.notify_all();
            }
        }));
    }
    let mut remaining: Vec<usize> = case.threads.iter().map(|s| s.len()).collect();
    let mut step = 0usize;
    loop {
        let runnable: Vec<usize> = (0..remaining.len()).filter(|t| remaining[*t] > 0).collect();
        if runnable.is_empty() {
            break;
        }
        let pick = case.schedule.get(step).map(|b| *b as usize % runnable.len()).unwrap_or(0);
        step += 1;
        let t = runnable[pick];
        remaining[t] -= 1;
        let mut st = baton.m.lock().unwrap();
        st.turn = Some(t);
        baton.cv.notify_all();
        while st.turn.is_some() {
            st = baton.cv.wait(st).unwrap();
        }
    }
    for h in handles {
        let _ = h.join();
    }
    let st = baton.m.lock().unwrap();
    History { sizes: exec::sizes(), events: st.events.clone() }
}

/// Child entry: `avrosim c19exec` - case JSON on stdin, history JSON on stdout.
pub fn exec_main() -> i32 {
    let mut text = String::new();
    if std::io::Read::read_to_string(&mut std::io::stdin(), &mut text).is_err() {
        println!("HARNESS-ERROR cannot read the case");
        return 2;
    }
    let case: Case = match serde_json::from_str(&text) {
        Ok(c) => c,
        Err(e) => {
            println!("HARNESS-ERROR cannot parse the case: {e}");
            return 2;
        }
    };
    // backstop only: a run that makes no progress for 120 s is reported as a hang
    std::thread::spawn(|| {
        std::thread::sleep(std::time::Duration::from_secs(120));
        eprintln!("HANG");
        std::process::exit(3);
    });
    let h = run_scenario(&case);
    let out = serde_json::to_string(&h).unwrap();
    let mut so = std::io::stdout();
    let _ = so.write_all(out.as_bytes());
    let _ = so.write_all(b"\n");
    0
}

// ------------------------------------------------------------------------------------------------
// parent side

pub struct C19;

fn run_child(case: &Case) -> Result<History, Failure> {
    let exe = std::env::current_exe().expect("current_exe");
    let mut child = std::process::Command::new(exe)
        .arg("c19exec")
        .stdin(std::process::Stdio::piped())
        .stdout(std::process::Stdio::piped())
        .stderr(std::process::Stdio::piped())
        .spawn()
        .map_err(|e| Failure::new("harness-spawn", "C19 harness-spawn", format!("cannot spawn child: {e}")))?;
    {
        let mut si = child.stdin.take().unwrap();
        let _ = si.write_all(serde_json::to_string(case).unwrap().as_bytes());
    }
    let out = child.wait_with_output().map_err(|e| Failure::new("harness-spawn", "C19 harness-spawn", format!("cannot wait for child: {e}")))?;
    let stderr = String::from_utf8_lossy(&out.stderr);
    match out.status.code() {
        Some(0) => {}
        Some(3) => return Err(Failure::new("hang", "C19 hang", "the process made no progress for 120 s".to_string())),
        Some(2) => return Err(Failure::new("harness-child", "C19 harness-child", String::from_utf8_lossy(&out.stdout).to_string())),
        other => {
            let line = stderr.lines().find(|l| l.starts_with("ALLOC-ABORT")).unwrap_or("").to_string();
            return Err(Failure::new("abort", "C19 abort", format!("the process died (status {other:?}) {line} {}", stderr.lines().last().unwrap_or(""))));
        }
    }
    let text = String::from_utf8_lossy(&out.stdout);
    serde_json::from_str::<History>(text.trim()).map_err(|e| Failure::new("harness-child", "C19 harness-child", format!("unreadable history: {e}")))
}

fn winner_kind(h: &History, s: Setting) -> &'static str {
    let first = h.events.iter().filter(|e| e.op.touches().contains(&s)).min_by_key(|e| e.invoke);
    match first {
        Some(e) if e.op.is_setter() && e.op.primary() == s => "setter",
        Some(_) => "user-default",
        None => "untouched",
    }
}

pub fn account(h: &History, case: &Case, ctx: &mut Ctx) {
    let mut order = String::new();
    let mut sorted: Vec<&Event> = h.events.iter().collect();
    sorted.sort_by_key(|e| e.invoke);
    for e in &sorted {
        ctx.eval();
        ctx.steps(1);
        order.push_str(&format!("{}:{};", e.thread, e.op.kind()));
        ctx.ev(&format!("{}:{}:{:?}", e.thread, e.index, e.obs));
        match (&e.op, &e.obs) {
            (Op::SetAlloc(v), Obs::Int(x)) if x != v => ctx.agg.count("probe.setter_lost_the_race.alloc"),
            (Op::SetHr(v), Obs::Bool(x)) if x != v => ctx.agg.count("probe.setter_lost_the_race.hr"),
            (Op::SetValidator { .. }, Obs::SetErr) | (Op::SetCmp { .. }, Obs::SetErr) => ctx.agg.count("probe.setter_lost_the_race.validator_or_comparator"),
            (Op::UseAlloc { .. }, Obs::RejectLimit) => ctx.agg.count("probe.limit_rejected"),
            (Op::UseAlloc { with_data: true, .. }, Obs::Accept) => ctx.agg.count("probe.length_accepted_and_delivered"),
            (Op::UseAlloc { with_data: false, .. }, Obs::OtherErr(_)) => ctx.agg.count("probe.declared_length_accepted_without_data"),
            (Op::UseValidator { .. }, Obs::Bool(true)) | (Op::UseCmp { .. }, Obs::Bool(true)) => ctx.agg.count("probe.custom_validator_or_comparator_in_force_seen"),
            (Op::UseHr { .. }, Obs::Bool(true)) => ctx.agg.count("probe.human_readable_true_seen"),
            _ => {}
        }
        if let Op::UseAlloc { path, .. } = &e.op {
            ctx.agg.count(&format!("path.{path:?}"));
        }
        if let Op::UseHr { path } = &e.op {
            ctx.agg.count(&format!("path.hr.{path:?}"));
        }
    }
    ctx.agg.count("fault.thread_preempt(baton handovers)");
    ctx.agg.add("sched.handovers", sorted.len() as u64);
    ctx.agg.state(format!("il|{order}"));
    for s in Setting::ALL {
        let w = winner_kind(h, s);
        if w != "untouched" {
            ctx.agg.state(format!("win|{}|{w}|{}", s.name(), case.threads.len()));
            if w == "user-default" && h.events.iter().any(|e| e.op.is_setter() && e.op.primary() == s) {
                ctx.agg.count("probe.user_initialised_default_before_setter");
            }
        }
    }
}

pub fn failure_of(v: Verdict) -> Failure {
    let s = v.setting.map(|s| s.name()).unwrap_or("-");
    Failure::new(v.class, format!("C19 {} setting={s} op={}", v.class, v.op_kind), v.detail)
}

impl Property for C19 {
    type Case = Case;
    fn id(&self) -> &'static str {
        "C19"
    }
    fn level(&self) -> &'static str {
        "exploration"
    }
    fn rule(&self) -> String {
        "One fresh child process per run (the seven settings are write-once per process). In the child 2-4 real caller threads each \
         hold a seeded script of 1-3 operations on a seeded subset of the settings: setters with distinguishable proposals (limits from \
         {0, 1, 7, 56, 100, 1000, 4096, 65536, 1 MiB, 1 MiB+1, 2^31, default, default+1, usize::MAX}, validators / comparators that \
         accept one extra tagged name) and users whose outcome reveals the value in force (a declared length or count at limit-1 / limit \
         / limit+1 through 28 decoding paths: generic and serde datum readers for bytes, string, fixed, arrays and maps (also written as two \
         blocks), from_avro_datum, container block size (also as the third block after two smaller ones have grown the reused \
         buffer), Codec::decompress and container blocks over five codecs, single-object reader; the \
         human-readable flag through to_value / from_value and the datum, container and single-object writers and readers; parsing a \
         schema that only one validator accepts; comparing two schemas that only one comparator equates). A baton scheduler releases one \
         thread at a time for one operation; the seeded schedule, not the OS, decides who goes next; invoke and return are stamped with \
         a global sequence number. One evaluation = one operation. distinct_nontrivial counts distinct interleavings (sequence of \
         (thread, operation kind)) plus distinct (setting, who decided it: setter or a user's default, number of threads) triples."
            .into()
    }
    fn assumptions(&self) -> Vec<String> {
        vec![
            "the baton interleaves at operation granularity: every operation is atomic with respect to the others (preemption inside library code is the Miri engine's job)".into(),
            "an operation's interval is used for every setting it reads; a user that reads a setting first initialises it to the documented default".into(),
            "size_of::<Value>() and size_of::<(String, Value)>() are taken from the build under test to place array/map counts at the limit".into(),
        ]
    }
    fn components(&self) -> J {
        json!({"real": ["util::max_allocation_bytes / set_serde_human_readable and every guard reading them", "validator and comparator registries", "std::sync::OnceLock", "OS threads", "all decoders, codecs, serde serializer/deserializer"],
               "simulated": ["thread release order (baton)", "process boundary (one child per run)"],
               "reference": ["OnceCellModel (write-once register) judge"]})
    }
    fn runs(&self, tier: Tier) -> u64 {
        match tier {
            Tier::Quick => 4_000,
            Tier::Thorough => 300_000,
        }
    }
    fn required_probes(&self) -> Vec<&'static str> {
        vec![
            "probe.setter_lost_the_race.alloc",
            "probe.setter_lost_the_race.hr",
            "probe.setter_lost_the_race.validator_or_comparator",
            "probe.user_initialised_default_before_setter",
            "probe.limit_rejected",
            "probe.length_accepted_and_delivered",
            "probe.declared_length_accepted_without_data",
            "probe.custom_validator_or_comparator_in_force_seen",
            "probe.human_readable_true_seen",
        ]
    }

    fn generate(&self, rng: &mut Rng, _run: u64, _tier: Tier) -> Option<Case> {
        Some(gen_case(rng, &GenCfg { max_data: 1 << 20, max_declared: (1 << 32) + 2, c_codecs: true, alloc_values: &gen::ALLOC_VALUES, validators: true }))
    }

    fn execute(&self, case: &Case, ctx: &mut Ctx) -> Option<Failure> {
        let h = match run_child(case) {
            Ok(h) => h,
            Err(f) => return Some(f),
        };
        account(&h, case, ctx);
        judge(&h).map(failure_of)
    }

    fn shrink(&self, case: &Case, _f: &Failure) -> Vec<Case> {
        let mut out = vec![];
        for t in 0..case.threads.len() {
            if case.threads.len() > 1 {
                let mut c = case.clone();
                c.threads.remove(t);
                out.push(c);
            }
        }
        for t in 0..case.threads.len() {
            for o in 0..case.threads[t].len() {
                let mut c = case.clone();
                c.threads[t].remove(o);
                if c.threads[t].is_empty() && c.threads.len() > 1 {
                    c.threads.remove(t);
                }
                if c.threads.iter().any(|s| !s.is_empty()) {
                    out.push(c);
                }
            }
        }
        if case.schedule.iter().any(|b| *b != 0) {
            let mut c = case.clone();
            c.schedule = vec![0; case.schedule.len()];
            out.push(c);
            for i in 0..case.schedule.len() {
                if case.schedule[i] != 0 {
                    let mut c = case.clone();
                    c.schedule[i] = 0;
                    out.push(c);
                }
            }
        }
        for t in 0..case.threads.len() {
            for o in 0..case.threads[t].len() {
                if let Op::UseAlloc { path, n, with_data, explicit_hr } = &case.threads[t][o] {
                    if !*explicit_hr {
                        let mut c = case.clone();
                        c.threads[t][o] = Op::UseAlloc { path: *path, n: *n, with_data: *with_data, explicit_hr: true };
                        out.push(c);
                    }
                }
            }
        }
        out
    }

    fn sample(&self, case: &Case) -> J {
        json!({"threads": case.threads, "schedule": case.schedule})
    }

    fn second_engine(&self, seed: u64, tier: Tier) -> Option<crate::harness::SecondEngine> {
        Some(miri_batch(seed, tier))
    }
}

// ------------------------------------------------------------------------------------------------
// Second engine: the same scenarios with free-running threads under Miri's seeded scheduler
// (`/verif/miri19`). Miri preempts inside library code and std; one (scenario seed, Miri seed)
// pair is one exactly repeatable execution.

const MIRI_FLAGS: &str = "-Zmiri-preemption-rate=0.05";

struct MiriOut {
    code: Option<i32>,
    stdout: String,
    stderr: String,
}

fn miri_run(scenario: &str, extra: &[&str], seeds: &str) -> Result<MiriOut, String> {
    let dir = format!("{}/miri19", crate::harness::verif_dir());
    let mut cmd = std::process::Command::new("cargo");
    cmd.current_dir(&dir).args(["+nightly", "miri", "run", "--offline", "--quiet", "--", scenario]).args(extra);
    cmd.env("MIRIFLAGS", format!("{seeds} {MIRI_FLAGS}")).env("CARGO_NET_OFFLINE", "true");
    let out = cmd.output().map_err(|e| format!("cannot run cargo miri: {e}"))?;
    Ok(MiriOut { code: out.status.code(), stdout: String::from_utf8_lossy(&out.stdout).to_string(), stderr: String::from_utf8_lossy(&out.stderr).to_string() })
}

fn miri_failure(line: &str) -> Option<(Failure, J)> {
    let j: J = serde_json::from_str(line.strip_prefix("MIRI-VIOLATION ")?).ok()?;
    let class = j["class"].as_str().unwrap_or("not-write-once").to_string();
    let f = Failure::new(
        &class,
        format!("C19 {class} setting={} op={} engine=miri", j["setting"].as_str().unwrap_or("-"), j["op"].as_str().unwrap_or("?")),
        j["detail"].as_str().unwrap_or("").to_string(),
    );
    Some((f, j))
}

pub fn miri_batch(seed: u64, tier: Tier) -> crate::harness::SecondEngine {
    let t0 = std::time::Instant::now();
    let (nscen, nseeds) = match tier {
        Tier::Quick => (std::env::var("VERIF_MIRI_SCENARIOS").ok().and_then(|s| s.parse().ok()).unwrap_or(15u64), 24u64),
        Tier::Thorough => (std::env::var("VERIF_MIRI_SCENARIOS").ok().and_then(|s| s.parse().ok()).unwrap_or(56u64), 64u64),
    };
    let mut ok_runs = 0u64;
    let mut overlaps = 0u64;
    let mut ops = 0u64;
    let mut orders = std::collections::BTreeSet::new();
    let mut violations = vec![];
    let mut harness_errors = vec![];
    let mut scenario_seeds = vec![];
    for i in 0..nscen {
        let scn = Rng::for_run(seed, "C19-miri-scenario", i).next_u64() % 1_000_000_000;
        scenario_seeds.push(scn);
        // fourteen of every fifteen scenarios are first-use races - each setting in turn, a setter
        // against a first use, then a setter against a setter; the fifteenth is a scenario of the
        // general generator
        let race = format!("race:{}", i - i / 15);
        let extra: Vec<&str> = if i % 15 == 14 { vec!["validators"] } else { vec![race.as_str()] };
        let out = match miri_run(&scn.to_string(), &extra, &format!("-Zmiri-many-seeds=0..{nseeds}")) {
            Ok(o) => o,
            Err(e) => {
                harness_errors.push(e);
                break;
            }
        };
        for l in out.stdout.lines() {
            if let Some(js) = l.strip_prefix("MIRI-OK ") {
                if let Ok(j) = serde_json::from_str::<J>(js) {
                    ok_runs += 1;
                    overlaps += j["overlapping_pairs"].as_u64().unwrap_or(0);
                    ops += j["ops"].as_u64().unwrap_or(0);
                    orders.insert(format!("{scn}|{}", j["order"]));
                }
            }
        }
        if out.code == Some(0) {
            continue;
        }
        // something failed under some Miri seed: name it, then re-execute exactly that pair
        let failing: Option<u64> = out.stderr.lines().chain(out.stdout.lines()).find_map(|l| l.trim().strip_prefix("FAILING SEED: ").and_then(|n| n.trim().parse().ok()));
        let Some(ms) = failing else {
            harness_errors.push(format!("cargo miri failed for scenario {scn} without naming a seed (exit {:?}): {}", out.code, out.stderr.lines().rev().take(6).collect::<Vec<_>>().join(" | ")));
            continue;
        };
        let again = match miri_run(&scn.to_string(), &extra, &format!("-Zmiri-seed={ms}")) {
            Ok(o) => o,
            Err(e) => {
                harness_errors.push(e);
                continue;
            }
        };
        let doc_base = json!({"property": "C19", "engine": "miri", "seed": seed, "scenario_seed": scn, "scenario_args": extra.clone(), "miri_seed": ms, "miri_flags": MIRI_FLAGS, "harness_version": crate::harness::HARNESS_VERSION});
        if let Some((f, j)) = again.stdout.lines().find_map(miri_failure) {
            let mut doc = doc_base;
            doc["violation"] = json!({"class": f.class, "signature": f.signature, "detail": f.detail});
            doc["case"] = j["case"].clone();
            doc["history"] = j["history"].clone();
            violations.push((doc, f));
        } else if again.code != Some(0) && (again.stderr.contains("Undefined Behavior") || again.stderr.contains("Data race") || again.stderr.contains("deadlock")) {
            let what = again.stderr.lines().find(|l| l.starts_with("error")).unwrap_or("error").chars().take(200).collect::<String>();
            let f = Failure::new("undefined-behaviour", "C19 undefined-behaviour engine=miri".to_string(), format!("Miri stopped the execution: {what}"));
            let mut doc = doc_base;
            doc["violation"] = json!({"class": f.class, "signature": f.signature, "detail": f.detail});
            violations.push((doc, f));
        } else {
            harness_errors.push(format!("scenario {scn} failed under Miri seed {ms} but the single-seed re-execution did not (exit {:?}): {}", again.code, again.stderr.lines().rev().take(4).collect::<Vec<_>>().join(" | ")));
        }
    }
    let wall = t0.elapsed().as_secs_f64();
    crate::harness::SecondEngine {
        evidence: json!({
            "engine": "miri (cargo +nightly miri run, /verif/miri19): free-running threads, preemption inside library code and std decided by -Zmiri-seed",
            "scenarios": scenario_seeds.len(), "scenario_seeds": scenario_seeds.iter().take(8).collect::<Vec<_>>(), "miri_seeds_per_scenario": nseeds, "miri_flags": MIRI_FLAGS,
            "executions_accepted": ok_runs, "operations": ops, "overlapping_operation_pairs": overlaps, "distinct_invocation_orders": orders.len(),
            "wall_s": wall, "executions_per_hour": if wall > 0.0 { (ok_runs as f64 / wall * 3600.0) as u64 } else { 0 },
            "real": ["apache-avro (default features + snappy; no C-backed codecs)", "std::sync::OnceLock as interpreted by Miri"], "simulated": ["thread scheduling and weak-memory behaviour (Miri, seeded)"],
        }),
        violations,
        harness_errors,
    }
}

/// Replay of a Miri-engine violation: exactly that (scenario, Miri seed) pair.
pub fn replay_miri(doc: &J, path: &str) -> i32 {
    let scn = doc["scenario_seed"].as_u64().unwrap_or(0).to_string();
    let ms = doc["miri_seed"].as_u64().unwrap_or(0);
    let extra: Vec<String> = doc["scenario_args"].as_array().map(|a| a.iter().filter_map(|x| x.as_str().map(|s| s.to_string())).collect()).unwrap_or_default();
    let extra_ref: Vec<&str> = extra.iter().map(|s| s.as_str()).collect();
    match miri_run(&scn, &extra_ref, &format!("-Zmiri-seed={ms}")) {
        Err(e) => {
            println!("HARNESS-ERROR {e}");
            2
        }
        Ok(o) => {
            if let Some((f, _)) = o.stdout.lines().find_map(miri_failure) {
                println!("VIOLATION property=C19 replay={path}");
                println!("  class={} signature={} detail={}", f.class, f.signature, f.detail);
                1
            } else if o.code == Some(0) {
                println!("replay {path}: property C19 holds on this trace (no violation)");
                0
            } else if o.stderr.contains("Undefined Behavior") || o.stderr.contains("Data race") {
                println!("VIOLATION property=C19 replay={path}");
                println!("  class=undefined-behaviour detail={}", o.stderr.lines().find(|l| l.starts_with("error")).unwrap_or(""));
                1
            } else {
                println!("HARNESS-ERROR miri exited with {:?}: {}", o.code, o.stderr.lines().rev().take(5).collect::<Vec<_>>().join(" | "));
                2
            }
        }
    }
}
