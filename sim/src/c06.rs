//! C06 - a successfully decoded value always conforms to the schema.
//!
//! One case = one (schema, value) pair (or a serde corpus value). Executing a case enumerates
//! EVERY end-of-input / error / EINTR position of the encoding behind the Read seam, plus seeded
//! damage and random bytes.

use crate::anyvalue::{self, AnyValue};
use crate::common::parse_rs;
use crate::corpus::{self, Corp};
use crate::gen::{RS, RV, ValueGen, avro_eq, gen_schema, to_avro, to_json};
use crate::harness::{Ctx, Failure, Property, Tier, guarded};
use crate::refimpl;
use crate::rng::Rng;
use crate::seams::{Chunk, ReadFault, ReadFaultKind, SimSource, SourcePlan};
use crate::with_corpus;
use apache_avro::AvroSchema;
use apache_avro::reader::datum::GenericDatumReader;
use apache_avro::types::Value;
use apache_avro::writer::datum::GenericDatumWriter;
use serde::{Deserialize, Serialize};
use serde_json::{Value as J, json};

#[derive(Clone, Debug, Serialize, Deserialize)]
pub enum Subject {
    Generic { schema: RS, value: RV },
    Corpus { type_id: String, value: J },
}

#[derive(Clone, Debug, Serialize, Deserialize, PartialEq)]
pub enum Probe {
    /// complete encoding under a chunk policy with EINTR every k-th call
    Complete { chunk: Chunk, eintr_every: u64 },
    /// strict prefix / error / EINTR at offset
    At { kind: ReadFaultKind, at: u64, chunk: Chunk },
    /// XOR bytes of the encoding
    Damage { edits: Vec<(usize, u8)> },
    /// arbitrary bytes
    Bytes { bytes: Vec<u8> },
    /// The datum inside a container file read by ONE long-lived reader: a first block of `first`
    /// copies, then a block that declares `declared` objects but holds `whole` complete copies
    /// followed by the first `tail` bytes of another one (byte size and marker consistent).
    /// The missing object is a truncated datum: it must be an error, never a value.
    Container { codec: u8, first: usize, declared: i64, whole: usize, tail: usize },
    /// A container file written with the schema stripped of its uuid / duration annotations on
    /// fixeds, read with the annotated schema as reader schema: every value handed out must be the
    /// value of the annotated schema (the reader schema says what the caller gets).
    AnnotatedReader,
}

#[derive(Clone, Debug, Serialize, Deserialize)]
pub struct Case {
    pub subject: Subject,
    pub salt: u64,
    pub only: Option<Probe>,
}

struct Prepared {
    schema: apache_avro::Schema,
    rs: Option<(RS, crate::gen::Defs)>,
    bytes: Vec<u8>,
    expected: Value,
    leaf: Vec<(usize, &'static str)>,
}

fn prepare(case: &Case) -> Option<Prepared> {
    match &case.subject {
        Subject::Generic { schema, value } => {
            let p = parse_rs(schema)?;
            let mut tr = Some(vec![]);
            let mut bytes = vec![];
            // one pair in three: arrays and maps written as several blocks of 1-2 items (also in
            // the negative-count form), a valid encoding this crate's Value encoder never produces
            let split = if case.salt % 3 == 0 { 1 + (case.salt / 3 % 2) as usize } else { 0 };
            refimpl::with_block_split(split, || refimpl::encode_t(value, schema, &p.defs, &mut bytes, &mut tr));
            let expected = to_avro(value, schema, &p.defs);
            Some(Prepared { schema: p.schema, rs: Some((schema.clone(), p.defs)), bytes, expected, leaf: tr.unwrap() })
        }
        Subject::Corpus { type_id, value } => {
            with_corpus!(type_id.as_str(), T => {
                let schema = T::get_schema();
                let t: T = serde_json::from_value(value.clone()).ok()?;
                let bytes = GenericDatumWriter::builder(&schema).build().ok()?.write_ser_to_vec(&t).ok()?;
                Some(Prepared { schema, rs: None, bytes, expected: t.to_value(), leaf: vec![] })
            })
        }
    }
}

fn kind_at(leaf: &[(usize, &'static str)], x: usize) -> &'static str {
    let mut k = "root";
    for (o, n) in leaf {
        if *o <= x {
            k = n;
        } else {
            break;
        }
    }
    k
}

struct Out<T> {
    res: Result<T, String>,
    pos: usize,
    calls: u64,
    eintrs: u64,
}

fn read_value(schema: &apache_avro::Schema, bytes: &[u8], plan: &SourcePlan) -> Result<Out<Value>, String> {
    guarded(|| {
        let mut src = SimSource::new(bytes, plan.clone());
        let rd = GenericDatumReader::builder(schema).build().expect("datum reader");
        let res = rd.read_value(&mut src).map_err(|e| e.to_string());
        Out { res, pos: src.pos, calls: src.calls, eintrs: src.eintrs }
    })
}

fn read_any(schema: &apache_avro::Schema, bytes: &[u8], plan: &SourcePlan) -> Result<Out<AnyValue>, String> {
    guarded(|| {
        anyvalue::reset_visits(1_000_000);
        let mut src = SimSource::new(bytes, plan.clone());
        let rd = GenericDatumReader::builder(schema).build().expect("datum reader");
        let res = rd.read_deser::<AnyValue>(&mut src).map_err(|e| e.to_string());
        Out { res, pos: src.pos, calls: src.calls, eintrs: src.eintrs }
    })
}

fn read_typed<T: Corp>(schema: &apache_avro::Schema, bytes: &[u8], plan: &SourcePlan) -> Result<Out<Value>, String> {
    guarded(|| {
        let mut src = SimSource::new(bytes, plan.clone());
        // the typed value through the generic reader's read_deser and, for every other input
        // length, through the typed reader built from the type's own schema
        let res = if bytes.len() % 2 == 0 {
            let rd = GenericDatumReader::builder(schema).build().expect("datum reader");
            rd.read_deser::<T>(&mut src).map(|t| t.to_value()).map_err(|e| e.to_string())
        } else {
            let rd = apache_avro::reader::datum::SpecificDatumReader::<T>::builder().build().expect("typed datum reader");
            rd.read(&mut src).map(|t| t.to_value()).map_err(|e| e.to_string())
        };
        Out { res, pos: src.pos, calls: src.calls, eintrs: src.eintrs }
    })
}

fn fail(class: &str, decoder: &str, what: String, probe: &Probe) -> Failure {
    Failure::new(
        class,
        format!("C06 {class} decoder={decoder}"),
        format!("{what} [probe={}]", serde_json::to_string(probe).unwrap()),
    )
}

/// Conformance of an Ok(v) on arbitrary input: validates, re-encodes, decodes to the same value.
fn conforms(p: &Prepared, v: &Value, consumed: &[u8], probe: &Probe, node: &str) -> Option<Failure> {
    if !v.validate(&p.schema) {
        return Some(Failure::new(
            "nonconforming-value",
            format!("C06 nonconforming-value node={node}"),
            format!(
                "decode returned Ok({}) which does not validate against the schema [probe={}]",
                crate::gen::describe_value(v),
                serde_json::to_string(probe).unwrap()
            ),
        ));
    }
    let w = GenericDatumWriter::builder(&p.schema).build().expect("datum writer");
    let re = match guarded(|| w.write_value_to_vec(v.clone())) {
        Err(panic) => return Some(fail("reencode-panics", "read_value", format!("re-encoding the decoded value panicked: {panic}"), probe)),
        Ok(Err(e)) => {
            return Some(Failure::new(
                "reencode-fails",
                format!("C06 reencode-fails node={node}"),
                format!(
                    "decode returned Ok({}) but re-encoding it fails: {e} [probe={}]",
                    crate::gen::describe_value(v),
                    serde_json::to_string(probe).unwrap()
                ),
            ));
        }
        Ok(Ok(b)) => b,
    };
    match read_value(&p.schema, &re, &SourcePlan::perfect()) {
        Ok(Out { res: Ok(v2), pos, .. }) if avro_eq(v, &v2) && pos == re.len() => {}
        other => {
            return Some(fail(
                "reencode-roundtrip-differs",
                "read_value",
                format!(
                    "decoded value {} re-encodes to {} bytes that decode to {:?}",
                    crate::gen::describe_value(v),
                    re.len(),
                    other.map(|o| o.res.map(|v| crate::gen::describe_value(&v)))
                ),
                probe,
            ));
        }
    }
    if let Some((rs, defs)) = &p.rs {
        let mut q = 0;
        let mut budget = 2_000_000;
        let r = refimpl::decode(rs, defs, consumed, &mut q, &mut budget);
        if budget >= 0 && (r.is_none() || q != consumed.len()) {
            return Some(fail(
                "consumed-bytes-not-a-datum",
                "read_value",
                format!(
                    "decode returned Ok after consuming {} bytes, which the reference decoder does not accept as one complete datum (ref consumed {q}, ok={})",
                    consumed.len(),
                    r.is_some()
                ),
                probe,
            ));
        }
    }
    None
}

fn run_probe(case: &Case, p: &Prepared, probe: &Probe, ctx: &mut Ctx) -> Option<Failure> {
    let n = p.bytes.len();
    let typed = |bytes: &[u8], plan: &SourcePlan| -> Option<Result<Out<Value>, String>> {
        if let Subject::Corpus { type_id, .. } = &case.subject {
            Some(with_corpus!(type_id.as_str(), T => read_typed::<T>(&p.schema, bytes, plan)))
        } else {
            None
        }
    };
    match probe {
        Probe::AnnotatedReader => {
            let (rs, defs) = p.rs.as_ref()?;
            if has_union(rs, defs, 0) {
                return None; // (also for a replayed case: see `plan`)
            }
            let writer_rs = strip_fixed_annotations(rs);
            let json = serde_json::to_string(&to_json(&writer_rs)).unwrap();
            let meta = vec![("avro.schema".to_string(), json.into_bytes())];
            let marker = [0x3cu8; 16];
            let mut file = refimpl::write_header(&meta, &marker);
            let mut blk = p.bytes.clone();
            blk.extend_from_slice(&p.bytes);
            refimpl::write_block(&mut file, 2, &blk, &refimpl::RCodec::Null, &marker);
            ctx.eval();
            ctx.agg.count("probe.container_read_with_annotated_reader_schema");
            let r = guarded(|| -> Result<Vec<Value>, String> {
                let rd = apache_avro::Reader::builder(&file[..]).reader_schema(&p.schema).build().map_err(|e| e.to_string())?;
                let mut out = vec![];
                for item in rd {
                    out.push(item.map_err(|e| e.to_string())?);
                }
                Ok(out)
            });
            match r {
                Err(panic) => Some(fail("panic", "container+reader_schema", format!("panic: {panic}"), probe)),
                // resolution may legitimately refuse; what it hands out must be the reader schema's value
                Ok(Err(_)) => None,
                Ok(Ok(vs)) => {
                    // which branch of a reader union a resolved value lands in is a matter of schema
                    // resolution (two branches can take the same value), not of this property: compare
                    // the values with their union wrappers removed
                    fn unwrapped(v: &Value) -> Value {
                        match v {
                            Value::Union(_, x) => unwrapped(x),
                            Value::Record(fs) => Value::Record(fs.iter().map(|(n, x)| (n.clone(), unwrapped(x))).collect()),
                            Value::Array(xs) => Value::Array(xs.iter().map(unwrapped).collect()),
                            Value::Map(m) => Value::Map(m.iter().map(|(k, x)| (k.clone(), unwrapped(x))).collect()),
                            other => other.clone(),
                        }
                    }
                    let want = unwrapped(&p.expected);
                    if vs.len() != 2 || !vs.iter().all(|v| avro_eq(&unwrapped(v), &want)) {
                        return Some(Failure::new(
                            "nonconforming-value",
                            "C06 nonconforming-value node=annotated-fixed decoder=container+reader_schema".to_string(),
                            format!(
                                "a file written with plain fixeds and read with a reader schema that annotates them (uuid / duration) handed out {} instead of {} [probe={}]",
                                vs.first().map(crate::gen::describe_value).unwrap_or_default(),
                                crate::gen::describe_value(&p.expected),
                                serde_json::to_string(probe).unwrap()
                            ),
                        ));
                    }
                    None
                }
            }
        }
        Probe::Container { codec, first, declared, whole, tail } => {
            let codec = match codec {
                0 => refimpl::RCodec::Null,
                1 => refimpl::RCodec::Deflate,
                2 => refimpl::RCodec::Snappy,
                3 => refimpl::RCodec::Zstd,
                4 => refimpl::RCodec::Bzip2,
                _ => refimpl::RCodec::Xz,
            };
            let (rs, _) = p.rs.as_ref()?;
            let json = serde_json::to_string(&to_json(rs)).unwrap();
            let mut meta = vec![("avro.schema".to_string(), json.into_bytes())];
            if codec != refimpl::RCodec::Null {
                meta.push(("avro.codec".to_string(), codec.name().as_bytes().to_vec()));
            }
            let marker = [0x3cu8; 16];
            let mut file = refimpl::write_header(&meta, &marker);
            let mut blk = vec![];
            for _ in 0..*first {
                blk.extend_from_slice(&p.bytes);
            }
            refimpl::write_block(&mut file, *first, &blk, &codec, &marker);
            let mut blk = vec![];
            for _ in 0..*whole {
                blk.extend_from_slice(&p.bytes);
            }
            blk.extend_from_slice(&p.bytes[..(*tail).min(n.saturating_sub(1))]);
            // write_block takes the count as usize: emit the declared count by hand
            {
                let payload = codec.compress(&blk);
                refimpl::put_long(&mut file, *declared);
                refimpl::put_long(&mut file, payload.len() as i64);
                file.extend_from_slice(&payload);
                file.extend_from_slice(&marker);
            }
            let complete = *first + *whole;
            ctx.eval();
            ctx.agg.count("probe.container_block_declares_more_than_it_holds");
            for iter in ["value", "deser"] {
                let r = guarded(|| -> (usize, usize, bool) {
                    let mut oks = 0;
                    let mut errs = 0;
                    let mut wrong = false;
                    let Ok(rd) = apache_avro::Reader::new(&file[..]) else { return (0, 1, false) };
                    if iter == "value" {
                        for (i, item) in rd.enumerate() {
                            match item {
                                Ok(v) => {
                                    oks += 1;
                                    if !avro_eq(&v, &p.expected) {
                                        wrong = true;
                                    }
                                }
                                Err(_) => errs += 1,
                            }
                            if i > complete + 8 {
                                break;
                            }
                        }
                    } else {
                        anyvalue::reset_visits(u64::MAX);
                        for (i, item) in rd.into_deser_iter::<AnyValue>().enumerate() {
                            match item {
                                Ok(_) => oks += 1,
                                Err(_) => errs += 1,
                            }
                            if i > complete + 8 {
                                break;
                            }
                        }
                    }
                    (oks, errs, wrong)
                });
                match r {
                    Err(panic) => return Some(fail("panic", "container", format!("panic reading a block that declares more objects than it holds: {panic}"), probe)),
                    Ok((oks, errs, wrong)) => {
                        if oks > complete || wrong {
                            return Some(Failure::new(
                                "truncated-datum-accepted",
                                format!("C06 truncated-datum-accepted decoder=container.{iter} node=block"),
                                format!(
                                    "a block declaring {declared} object(s) holds {whole} complete datum(s) and {} byte(s) of another; the reader delivered {oks} value(s) where only {complete} exist (invented from bytes that are not part of the block){} [probe={}]",
                                    (*tail).min(n.saturating_sub(1)),
                                    if wrong { ", not all equal to the written value" } else { "" },
                                    serde_json::to_string(probe).unwrap()
                                ),
                            ));
                        }
                        if errs == 0 {
                            return Some(Failure::new(
                                "truncated-datum-accepted",
                                format!("C06 truncated-datum-accepted decoder=container.{iter} node=block-silent"),
                                format!("a block declaring {declared} object(s) holds only {whole}; the reader delivered {oks} value(s) and no error [probe={}]", serde_json::to_string(probe).unwrap()),
                            ));
                        }
                    }
                }
            }
            None
        }
        Probe::Complete { chunk, eintr_every } => {
            let plan = SourcePlan { chunk: chunk.clone(), faults: vec![], eintr_every: *eintr_every };
            ctx.eval();
            match read_value(&p.schema, &p.bytes, &plan) {
                Err(panic) => return Some(fail("panic", "read_value", format!("panic on a complete datum: {panic}"), probe)),
                Ok(o) => {
                    ctx.steps(o.calls);
                    ctx.agg.add("fault.read_eintr", o.eintrs);
                    match &o.res {
                        Ok(v) if avro_eq(v, &p.expected) && o.pos == n => {}
                        Ok(v) => {
                            return Some(fail(
                                "complete-datum-wrong",
                                "read_value",
                                format!("complete {n}-byte datum decoded to {} consuming {} bytes; expected {}", crate::gen::describe_value(v), o.pos, crate::gen::describe_value(&p.expected)),
                                probe,
                            ));
                        }
                        Err(e) => return Some(fail("complete-datum-rejected", "read_value", format!("complete {n}-byte datum rejected: {e}"), probe)),
                    }
                }
            }
            ctx.eval();
            match read_any(&p.schema, &p.bytes, &plan) {
                Err(panic) => return Some(fail("panic", "read_deser", format!("panic on a complete datum: {panic}"), probe)),
                Ok(o) => {
                    ctx.steps(o.calls);
                    match &o.res {
                        Ok(_) if o.pos == n => {}
                        Ok(_) => return Some(fail("decoders-disagree", "read_deser", format!("complete {n}-byte datum: read_deser consumed {} bytes", o.pos), probe)),
                        Err(e) => return Some(fail("decoders-disagree", "read_deser", format!("complete {n}-byte datum accepted by read_value but rejected by read_deser: {e}"), probe)),
                    }
                }
            }
            if let Some(r) = typed(&p.bytes, &plan) {
                ctx.eval();
                match r {
                    Err(panic) => return Some(fail("panic", "read_deser_typed", format!("panic on a complete datum: {panic}"), probe)),
                    Ok(o) => match &o.res {
                        Ok(v) if avro_eq(v, &p.expected) && o.pos == n => {}
                        other => return Some(fail("complete-datum-wrong", "read_deser_typed", format!("typed deserialization of the complete datum gave {:?} (consumed {})", other.as_ref().map(crate::gen::describe_value), o.pos), probe)),
                    },
                }
            }
            ctx.agg.state(format!("complete|{}", chunk_name(chunk)));
            None
        }
        Probe::At { kind, at, chunk } => {
            let plan = SourcePlan { chunk: chunk.clone(), faults: vec![ReadFault { kind: *kind, at: *at }], eintr_every: 0 };
            let node = kind_at(&p.leaf, *at as usize);
            ctx.agg.count(&format!("fault.read_{kind:?}"));
            match node {
                "boolean" => ctx.agg.count("probe.eof_in_boolean"),
                "string" => ctx.agg.count("probe.eof_in_string"),
                "union" => ctx.agg.count("probe.eof_in_union"),
                "uuid" => ctx.agg.count("probe.eof_in_uuid"),
                _ => {}
            }
            let mut results: Vec<(&str, Result<(bool, usize, String), String>)> = vec![];
            ctx.eval();
            results.push(("read_value", read_value(&p.schema, &p.bytes, &plan).map(|o| {
                ctx.steps(o.calls);
                match o.res {
                    Ok(v) => (true, o.pos, if avro_eq(&v, &p.expected) { "expected".to_string() } else { crate::gen::describe_value(&v) }),
                    Err(e) => (false, o.pos, e),
                }
            })));
            ctx.eval();
            results.push(("read_deser", read_any(&p.schema, &p.bytes, &plan).map(|o| {
                ctx.steps(o.calls);
                match o.res {
                    Ok(_) => (true, o.pos, "any".to_string()),
                    Err(e) => (false, o.pos, e),
                }
            })));
            if let Some(r) = typed(&p.bytes, &plan) {
                ctx.eval();
                results.push(("read_deser_typed", r.map(|o| match o.res {
                    Ok(v) => (true, o.pos, if avro_eq(&v, &p.expected) { "expected".to_string() } else { crate::gen::describe_value(&v) }),
                    Err(e) => (false, o.pos, e),
                })));
            }
            for (dec, r) in results {
                ctx.agg.state(format!("{node}|{dec}|{kind:?}|{}", chunk_name(chunk)));
                match r {
                    Err(panic) => return Some(fail("panic", dec, format!("panic with {kind:?} at offset {at} of {n}: {panic}"), probe)),
                    Ok((ok, pos, what)) => match kind {
                        ReadFaultKind::Eof | ReadFaultKind::Other => {
                            if ok {
                                let class = if *kind == ReadFaultKind::Eof { "truncated-datum-accepted" } else { "read-error-swallowed" };
                                return Some(Failure::new(
                                    class,
                                    format!("C06 {class} decoder={dec} node={node}"),
                                    format!(
                                        "{kind:?} at offset {at} of a {n}-byte datum (inside a {node}) but the decoder returned Ok({what}) [probe={}]",
                                        serde_json::to_string(probe).unwrap()
                                    ),
                                ));
                            }
                        }
                        ReadFaultKind::Once(_) => {}
                        ReadFaultKind::Interrupted => {
                            if !ok || pos != n || (what != "expected" && what != "any") {
                                return Some(fail(
                                    "eintr-not-retried",
                                    dec,
                                    format!("EINTR at offset {at} of {n}: result ok={ok} consumed={pos} value={what}"),
                                    probe,
                                ));
                            }
                        }
                    },
                }
            }
            None
        }
        Probe::Damage { .. } | Probe::Bytes { .. } => {
            let bytes = match probe {
                Probe::Damage { edits } => {
                    let mut b = p.bytes.clone();
                    for (i, x) in edits {
                        if *i < b.len() {
                            b[*i] ^= x;
                        }
                    }
                    b
                }
                Probe::Bytes { bytes } => bytes.clone(),
                _ => unreachable!(),
            };
            let kindname = if matches!(probe, Probe::Damage { .. }) { "flip" } else { "random" };
            ctx.agg.count(&format!("fault.{kindname}_bytes"));
            ctx.eval();
            let node = match probe {
                Probe::Damage { edits } => kind_at(&p.leaf, edits.first().map(|e| e.0).unwrap_or(0)),
                _ => "random",
            };
            // what the generic decoder says of these bytes: Ok(value, consumed) or Err
            let generic: Result<(Value, usize), String> = match read_value(&p.schema, &bytes, &SourcePlan::perfect()) {
                Err(panic) => return Some(fail("panic", "read_value", format!("panic on damaged bytes: {panic}"), probe)),
                Ok(o) => {
                    ctx.steps(o.calls);
                    ctx.agg.state(format!("{node}|read_value|{kindname}|{}", if o.res.is_ok() { "ok" } else { "err" }));
                    if let Ok(v) = &o.res {
                        ctx.agg.count("probe.damaged_bytes_decoded_ok");
                        if let Some(f) = conforms(p, v, &bytes[..o.pos], probe, node) {
                            return Some(f);
                        }
                    }
                    o.res.map(|v| (v, o.pos))
                }
            };
            // the schema-aware deserializer must give the same answer to "is this a datum": into the
            // self-describing sink, and into the corpus type where the case has one
            let mut others: Vec<(&str, Result<(Option<Value>, usize), String>)> = vec![];
            ctx.eval();
            match read_any(&p.schema, &bytes, &SourcePlan::perfect()) {
                Err(panic) => return Some(fail("panic", "read_deser", format!("panic on damaged bytes: {panic}"), probe)),
                Ok(o) => others.push(("read_deser", o.res.map(|_| (None, o.pos)))),
            }
            if let Some(r) = typed(&bytes, &SourcePlan::perfect()) {
                ctx.eval();
                match r {
                    Err(panic) => return Some(fail("panic", "read_deser_typed", format!("panic on damaged bytes: {panic}"), probe)),
                    Ok(o) => others.push(("read_deser_typed", o.res.map(|v| (Some(v), o.pos)))),
                }
            }
            let sig = |dec: &str| format!("C06 decoders-disagree decoder={dec} on=damaged-bytes");
            let pj = serde_json::to_string(probe).unwrap();
            // where the case has a reference schema: is there, structurally (logical types as their
            // underlying types), a datum at the start of these bytes, and how long is it
            // (unknown, and not judged, when the reference gives up on a hostile count)
            let structural: Option<Option<usize>> = p.rs.as_ref().and_then(|(rs, defs)| {
                let mut budget = 200_000i64;
                let r = refimpl::decode_structural(rs, defs, &bytes, &mut budget);
                if budget < 0 {
                    ctx.agg.count("probe.damaged_bytes_reference_budget_exhausted");
                    None
                } else {
                    Some(r)
                }
            });
            if let Some(st) = &structural {
                ctx.agg.count(if st.is_some() { "probe.damaged_bytes_still_a_datum_structurally" } else { "probe.damaged_bytes_no_datum_structurally" });
                if let Ok((gv, gpos)) = &generic {
                    if *st != Some(*gpos) {
                        return Some(Failure::new(
                            "malformed-accepted",
                            format!("C06 malformed-accepted decoder=read_value node={node}"),
                            format!("{} damaged/random bytes: read_value returned Ok({}) consuming {gpos}, but the bytes {} [probe={pj}]", bytes.len(), crate::gen::describe_value(gv),
                                match st { Some(k) => format!("hold a datum of {k} byte(s)"), None => "do not start with a well-formed datum of this schema".to_string() }),
                        ));
                    }
                }
            }
            for (dec, r) in others {
                ctx.agg.state(format!("{node}|{dec}|{kindname}|{}", if r.is_ok() { "ok" } else { "err" }));
                if let (Some(st), Ok((tv, tpos))) = (&structural, &r) {
                    if *st != Some(*tpos) {
                        return Some(Failure::new(
                            "malformed-accepted",
                            format!("C06 malformed-accepted decoder={dec} node={node}"),
                            format!("{} damaged/random bytes: {dec} returned Ok({}) consuming {tpos}, but the bytes {} [probe={pj}]", bytes.len(), tv.as_ref().map(crate::gen::describe_value).unwrap_or_else(|| "any".into()),
                                match st { Some(k) => format!("hold a datum of {k} byte(s)"), None => "do not start with a well-formed datum of this schema".to_string() }),
                        ));
                    }
                }
                match (&generic, &r) {
                    (Err(_), Err(_)) => ctx.agg.count("probe.damaged_bytes_rejected_by_both_decoders"),
                    (Ok((gv, gpos)), Ok((tv, tpos))) => {
                        ctx.agg.count("probe.damaged_bytes_accepted_by_both_decoders");
                        if gpos != tpos {
                            return Some(Failure::new("decoders-disagree", sig(dec), format!("{} damaged/random bytes: read_value took {gpos} byte(s) as the datum, {dec} took {tpos} [probe={pj}]", bytes.len())));
                        }
                        if let Some(tv) = tv {
                            if !avro_eq(tv, gv) {
                                return Some(Failure::new("decoders-disagree", sig(dec), format!("the same {gpos} byte(s) decode to {} by read_value and to {} by {dec} [probe={pj}]", crate::gen::describe_value(gv), crate::gen::describe_value(tv))));
                            }
                        }
                    }
                    // the generic decoder also applies the content rules of logical types (uuid text,
                    // big-decimal framing); a sink that takes the underlying string or bytes does
                    // not, so with a reference schema this direction is judged structurally (above)
                    (Err(_), Ok(_)) if p.rs.is_some() => ctx.agg.count("probe.damaged_bytes_content_rule_only_in_generic_decoder"),
                    (Err(e), Ok((tv, tpos))) => {
                        return Some(Failure::new("decoders-disagree", sig(dec), format!("{} damaged/random bytes are no datum for read_value ({e}) but {dec} returned Ok({}) consuming {tpos} [probe={pj}]", bytes.len(), tv.as_ref().map(crate::gen::describe_value).unwrap_or_else(|| "any".into()))));
                    }
                    // (the self-describing sink's own step budget, on a hostile count of zero-width items)
                    (Ok(_), Err(e)) if e.contains("visit budget exhausted") => ctx.agg.count("probe.damaged_bytes_sink_budget_exhausted"),
                    (Ok((gv, gpos)), Err(e)) => {
                        return Some(Failure::new("decoders-disagree", sig(dec), format!("read_value takes {gpos} of the {} damaged/random bytes as the datum {} but {dec} rejects them: {e} [probe={pj}]", bytes.len(), crate::gen::describe_value(gv))));
                    }
                }
            }
            None
        }
    }
}

fn chunk_name(c: &Chunk) -> &'static str {
    match c {
        Chunk::All => "all",
        Chunk::Const(_) => "const",
        Chunk::Hashed { .. } => "hashed",
    }
}

fn probes(case: &Case, p: &Prepared) -> Vec<Probe> {
    let mut out = vec![
        Probe::Complete { chunk: Chunk::All, eintr_every: 0 },
        Probe::Complete { chunk: Chunk::Const(1), eintr_every: 0 },
        Probe::Complete { chunk: Chunk::Hashed { salt: case.salt, max: 5 }, eintr_every: 2 },
    ];
    let n = p.bytes.len() as u64;
    for x in 0..n {
        for kind in [ReadFaultKind::Eof, ReadFaultKind::Other, ReadFaultKind::Interrupted] {
            out.push(Probe::At { kind, at: x, chunk: Chunk::All });
            out.push(Probe::At { kind, at: x, chunk: Chunk::Const(1) });
        }
    }
    // seeded damage: derived from the salt only (a function of the case)
    let mut r = Rng::new(case.salt);
    if n > 0 {
        for _ in 0..(8 + n.min(40)) {
            let k = 1 + r.below(2) as usize;
            let edits = (0..k)
                .map(|_| {
                    let i = r.usize_below(n as usize);
                    let x = if r.chance(1, 2) { 1u8 << r.below(8) } else { (r.below(255) + 1) as u8 };
                    (i, x)
                })
                .collect();
            out.push(Probe::Damage { edits });
        }
    }
    for _ in 0..6 {
        let len = r.usize_below(12);
        out.push(Probe::Bytes { bytes: r.bytes(len) });
    }
    if let Some((rs, defs)) = &p.rs {
        // (not for schemas with unions: which branch of the reader union a value is resolved into -
        // the library takes the first one that accepts it, even an empty record for a map - is
        // schema resolution, not this property)
        if strip_fixed_annotations(rs) != *rs && !has_union(rs, defs, 0) {
            out.push(Probe::AnnotatedReader);
        }
    }
    if n > 0 && p.rs.is_some() {
        // the stateful reader: a block that declares more objects than it holds, after a larger block
        for codec in [0u8, 0, 1 + r.below(5) as u8] {
            let first = 1 + r.usize_below(4);
            out.push(Probe::Container { codec, first, declared: 2, whole: 1, tail: 0 });
            out.push(Probe::Container { codec, first, declared: 1, whole: 0, tail: r.usize_below(n as usize) });
            out.push(Probe::Container { codec, first, declared: 3, whole: 1, tail: 1 + r.usize_below(n as usize) - 1 });
        }
    }
    out
}

fn has_union(s: &RS, defs: &crate::gen::Defs, depth: u32) -> bool {
    if depth > 8 {
        return false;
    }
    match s {
        RS::Union(_) => true,
        RS::Record { fields, .. } => fields.iter().any(|(_, t)| has_union(t, defs, depth + 1)),
        RS::Array(t) | RS::Map(t) => has_union(t, defs, depth + 1),
        RS::Ref { full, .. } => defs.get(full.trim_start_matches('.')).map(|t| has_union(t, defs, depth + 1)).unwrap_or(false),
        _ => false,
    }
}

/// The schema with uuid / duration annotations on fixeds removed (same bytes on the wire).
fn strip_fixed_annotations(s: &RS) -> RS {
    use crate::gen::Logical;
    match s {
        RS::Logical(Logical::UuidFixed | Logical::Duration, base) => (**base).clone(),
        RS::Record { full, style, fields } => RS::Record { full: full.clone(), style: style.clone(), fields: fields.iter().map(|(n, t)| (n.clone(), strip_fixed_annotations(t))).collect() },
        RS::Array(t) => RS::Array(Box::new(strip_fixed_annotations(t))),
        RS::Map(t) => RS::Map(Box::new(strip_fixed_annotations(t))),
        RS::Union(bs) => RS::Union(bs.iter().map(strip_fixed_annotations).collect()),
        other => other.clone(),
    }
}

/// A struct with a fixed-size array field read through the crate's `serde::array` helper.
#[derive(Serialize, Deserialize, AvroSchema, Clone, Debug, PartialEq)]
struct Axes {
    #[avro(with = apache_avro::serde::array::get_schema_in_ctxt::<i32>)]
    #[serde(with = "apache_avro::serde::array")]
    axes: [i32; 2],
    label: String,
}

/// Datums that are valid for the schema (`array<int>` of any length) but hold another number of
/// items than the Rust type takes: the generic decoder reads them completely; the typed reader must
/// either fail or have read the whole datum - never return Ok having consumed only part of it.
fn fixed_array_probe(salt: u64, ctx: &mut Ctx) -> Option<Failure> {
    let schema = Axes::get_schema();
    let label = ["hi", "", "ĸ", "label"][(salt / 64 % 4) as usize];
    for m in [0usize, 1, 2, 3, 5] {
        let mut bytes = vec![];
        if m > 0 {
            refimpl::put_long(&mut bytes, m as i64);
            for i in 0..m {
                refimpl::put_long(&mut bytes, i as i64 + 1);
            }
        }
        bytes.push(0);
        refimpl::put_long(&mut bytes, label.len() as i64);
        bytes.extend_from_slice(label.as_bytes());
        let n = bytes.len();
        ctx.eval();
        ctx.agg.count("probe.fixed_size_array_field_with_other_item_count");
        let generic = read_value(&schema, &bytes, &SourcePlan::perfect());
        match &generic {
            Ok(o) if o.res.is_ok() && o.pos == n => {}
            other => {
                return Some(Failure::new(
                    "complete-datum-rejected",
                    "C06 complete-datum-rejected decoder=read_value node=array".to_string(),
                    format!("a record with an array of {m} ints is valid for the schema but read_value gave {:?}", other.as_ref().map(|o| (o.res.is_ok(), o.pos))),
                ));
            }
        }
        let typed = guarded(|| {
            let mut src = SimSource::new(&bytes, SourcePlan::perfect());
            let rd = GenericDatumReader::builder(&schema).build().expect("datum reader");
            let r = rd.read_deser::<Axes>(&mut src);
            (r.map_err(|e| e.to_string()), src.pos)
        });
        match typed {
            Err(p) => return Some(Failure::new("panic", "C06 panic decoder=read_deser node=array".to_string(), format!("typed read of a {m}-item array panicked: {p}"))),
            Ok((Ok(v), pos)) => {
                let whole = pos == n && m == 2 && v.axes == [1, 2] && v.label == label;
                if !whole {
                    return Some(Failure::new(
                        "truncated-datum-accepted",
                        "C06 truncated-datum-accepted decoder=read_deser node=fixed-size-array".to_string(),
                        format!("a datum whose array holds {m} item(s) was accepted by the typed reader for a [i32; 2] field as {v:?} after consuming {pos} of {n} bytes; the generic decoder reads all {n} bytes as one datum"),
                    ));
                }
            }
            Ok((Err(_), _)) => {
                if m == 2 {
                    return Some(Failure::new(
                        "complete-datum-rejected",
                        "C06 complete-datum-rejected decoder=read_deser node=fixed-size-array".to_string(),
                        "a datum whose array holds exactly the 2 items of the [i32; 2] field was rejected by the typed reader".to_string(),
                    ));
                }
            }
        }
    }
    None
}

pub struct C06;

impl Property for C06 {
    type Case = Case;
    fn id(&self) -> &'static str {
        "C06"
    }
    fn level(&self) -> &'static str {
        "fault_enumeration"
    }
    fn rule(&self) -> String {
        "Seeds sample (schema, conforming value) pairs from the recursive generators and serde corpus values. Per pair, with b the \
         reference encoding: b complete under 3 chunk policies (incl. EINTR every 2nd call); EVERY offset 0<=x<|b| as end of input, as \
         a hard read error and as a one-shot EINTR, under 2 chunk policies, through both decoders (read_value, read_deser into a \
         self-describing sink, and typed read_deser for corpus values); 16-48 seeded 1-2 byte XOR damages and 6 random byte strings \
         with the conformance oracle on every Ok; and the datum inside a container file read by one long-lived Reader (both \
         iterators): a first block of 1-4 copies, then a block that declares more objects than it holds (k complete copies plus a \
         strict prefix of another; null codec and one seeded compressing codec) - the missing object must be an error, never a value. \
         Also: schemas that annotate a fixed as uuid / duration written without the annotation and read back with the annotated \
         schema as reader schema; a struct with a [i32; 2] field read through serde::array from arrays of other lengths. A third of \
         the pairs are encoded with arrays/maps split over several blocks; corpus values also go through SpecificDatumReader. \
         One evaluation = one decode call or one container read. distinct_nontrivial counts distinct (schema node \
         kind at the fault position, decoder, fault kind, chunk policy) tuples."
            .into()
    }
    fn assumptions(&self) -> Vec<String> {
        vec![
            "Avro encodings are prefix-free per schema, so a strict prefix of a valid encoding is never a complete datum".into(),
            "decoder agreement is demanded only on complete encodings and strict prefixes, where the answer is known".into(),
            "the reference decoder used for 'consumed bytes are one datum' is as lenient as the specification allows (non-minimal varints, negative block counts)".into(),
        ]
    }
    fn components(&self) -> J {
        json!({"real": ["apache_avro GenericDatumReader::{read_value, read_deser}", "decode.rs", "serde/deser_schema", "Value::validate", "GenericDatumWriter (re-encode)"],
               "simulated": ["SimSource (EOF / error / EINTR at offset, chunking)", "byte damage"],
               "reference": ["refimpl datum encoder and strict decoder"]})
    }
    fn runs(&self, tier: Tier) -> u64 {
        match tier {
            Tier::Quick => 6_000,
            Tier::Thorough => 600_000,
        }
    }
    fn required_probes(&self) -> Vec<&'static str> {
        vec!["probe.eof_in_boolean", "probe.eof_in_string", "probe.eof_in_union", "probe.eof_in_uuid", "probe.damaged_bytes_decoded_ok", "probe.container_block_declares_more_than_it_holds", "probe.container_read_with_annotated_reader_schema", "probe.fixed_size_array_field_with_other_item_count"]
    }

    fn generate(&self, rng: &mut Rng, _run: u64, _tier: Tier) -> Option<Case> {
        let mut wr = rng.fork("workload");
        let subject = if wr.chance(5, 6) {
            let depth = *wr.pick(&[0u32, 1, 2, 3, 3]);
            let gs = gen_schema(&mut wr, depth, true);
            parse_rs(&gs.root)?;
            let mut vg = ValueGen::new(&gs.defs);
            vg.max_blob = 80;
            vg.max_len = 3;
            let value = vg.gen(&mut wr, &gs.root, 0);
            Subject::Generic { schema: gs.root, value }
        } else {
            let id = *wr.pick(&corpus::IDS);
            let value = with_corpus!(id, T => serde_json::to_value(T::gen(&mut wr)).unwrap());
            Subject::Corpus { type_id: id.into(), value }
        };
        Some(Case { subject, salt: wr.next_u64(), only: None })
    }

    fn execute(&self, case: &Case, ctx: &mut Ctx) -> Option<Failure> {
        let Some(p) = prepare(case) else {
            ctx.agg.count("scenario.unbuildable");
            return None;
        };
        ctx.ev_u(p.bytes.len() as u64);
        if case.only.is_none() && case.salt % 64 == 0 {
            if let Some(f) = fixed_array_probe(case.salt, ctx) {
                return Some(f);
            }
        }
        let ps = match &case.only {
            Some(x) => vec![x.clone()],
            None => probes(case, &p),
        };
        for probe in &ps {
            if let Some(f) = run_probe(case, &p, probe, ctx) {
                ctx.ev(&f.class);
                return Some(f);
            }
        }
        ctx.ev("ok");
        None
    }

    fn shrink(&self, case: &Case, failure: &Failure) -> Vec<Case> {
        let mut out = vec![];
        if case.only.is_none() {
            if let Some(i) = failure.detail.rfind("[probe=") {
                let s = &failure.detail[i + 7..failure.detail.len() - 1];
                if let Ok(pr) = serde_json::from_str::<Probe>(s) {
                    out.push(Case { subject: case.subject.clone(), salt: case.salt, only: Some(pr) });
                }
            }
            return out;
        }
        // structural shrink of (schema, value); offsets move, so re-enumerate
        if let Subject::Generic { schema, value } = &case.subject {
            for (s2, mut v2) in crate::c13::shrink_schema_values(schema, std::slice::from_ref(value)) {
                if let Some(v) = v2.pop() {
                    out.push(Case { subject: Subject::Generic { schema: s2, value: v }, salt: case.salt, only: None });
                }
            }
        }
        if let Some(Probe::At { kind, at, chunk }) = &case.only {
            if *chunk != Chunk::All {
                out.push(Case { subject: case.subject.clone(), salt: case.salt, only: Some(Probe::At { kind: *kind, at: *at, chunk: Chunk::All }) });
            }
        }
        if let Some(Probe::Damage { edits }) = &case.only {
            if edits.len() > 1 {
                for i in 0..edits.len() {
                    let mut e = edits.clone();
                    e.remove(i);
                    out.push(Case { subject: case.subject.clone(), salt: case.salt, only: Some(Probe::Damage { edits: e }) });
                }
            }
        }
        if let Some(Probe::Bytes { bytes }) = &case.only {
            for i in 0..bytes.len() {
                let mut b = bytes.clone();
                b.remove(i);
                out.push(Case { subject: case.subject.clone(), salt: case.salt, only: Some(Probe::Bytes { bytes: b }) });
            }
        }
        out
    }

    fn sample(&self, case: &Case) -> J {
        match &case.subject {
            Subject::Generic { schema, value } => {
                let n = parse_rs(schema).map(|p| refimpl::encode_vec(value, schema, &p.defs).len());
                json!({"schema": to_json(schema), "encoded_len": n, "fault_space": "every offset x {EOF, error, EINTR} x 2 chunk policies x 2 decoders + damage + random bytes"})
            }
            Subject::Corpus { type_id, value } => json!({"corpus_type": type_id, "value": value}),
        }
    }
}
