//! Seeded workload generators: schemas (own AST, emitted as JSON and parsed by the library),
//! conforming values biased to boundaries, near-miss values.

use crate::rng::Rng;
use apache_avro::types::Value;
use apache_avro::{Decimal, Duration};
use serde_json::{Map as JMap, Value as J, json};
use std::collections::{BTreeMap, HashMap};

#[derive(Clone, Debug, PartialEq, serde::Serialize, serde::Deserialize)]
pub enum Logical {
    DecimalBytes { precision: u32, scale: u32 },
    DecimalFixed { precision: u32, scale: u32 },
    BigDecimal,
    UuidString,
    UuidFixed,
    Date,
    TimeMillis,
    TimeMicros,
    TimestampMillis,
    TimestampMicros,
    TimestampNanos,
    LocalTimestampMillis,
    LocalTimestampMicros,
    LocalTimestampNanos,
    Duration,
}

impl Logical {
    pub fn name(&self) -> &'static str {
        match self {
            Logical::DecimalBytes { .. } | Logical::DecimalFixed { .. } => "decimal",
            Logical::BigDecimal => "big-decimal",
            Logical::UuidString | Logical::UuidFixed => "uuid",
            Logical::Date => "date",
            Logical::TimeMillis => "time-millis",
            Logical::TimeMicros => "time-micros",
            Logical::TimestampMillis => "timestamp-millis",
            Logical::TimestampMicros => "timestamp-micros",
            Logical::TimestampNanos => "timestamp-nanos",
            Logical::LocalTimestampMillis => "local-timestamp-millis",
            Logical::LocalTimestampMicros => "local-timestamp-micros",
            Logical::LocalTimestampNanos => "local-timestamp-nanos",
            Logical::Duration => "duration",
        }
    }
}

/// How a named type's name is written in JSON.
#[derive(Clone, Debug, PartialEq, serde::Serialize, serde::Deserialize)]
pub enum NameStyle {
    /// "name": "ns.Name"
    Dotted,
    /// "name": "Name", "namespace": "ns"
    NsAttr,
    /// "name": "Name" (namespace inherited from the enclosing named type)
    Inherit,
}

#[derive(Clone, Debug, PartialEq, serde::Serialize, serde::Deserialize)]
pub enum RS {
    Null,
    Boolean,
    Int,
    Long,
    Float,
    Double,
    Bytes,
    String,
    Record { full: String, style: NameStyle, fields: Vec<(String, RS)> },
    Enum { full: String, style: NameStyle, symbols: Vec<String> },
    Fixed { full: String, style: NameStyle, size: usize },
    Array(Box<RS>),
    Map(Box<RS>),
    Union(Vec<RS>),
    /// reference by full name; `short` = emit the short name (legal because same namespace as the enclosing one)
    Ref { full: String, short: bool },
    /// logical type over its base schema
    Logical(Logical, Box<RS>),
}

/// Values in base (physical) form. Logical values are stored as their base representation.
#[derive(Clone, Debug, PartialEq, serde::Serialize, serde::Deserialize)]
pub enum RV {
    Null,
    Bool(bool),
    Int(i32),
    Long(i64),
    Float(u32),
    Double(u64),
    Bytes(Vec<u8>),
    Str(String),
    Fixed(Vec<u8>),
    Enum(u32),
    Union(u32, Box<RV>),
    Array(Vec<RV>),
    Map(Vec<(String, RV)>),
    Record(Vec<RV>),
}

pub fn split_full(full: &str) -> (Option<&str>, &str) {
    match full.rfind('.') {
        Some(i) => (Some(&full[..i]), &full[i + 1..]),
        None => (None, full),
    }
}

pub type Defs = BTreeMap<String, RS>;

#[derive(Clone, Debug)]
pub struct GenSchema {
    pub root: RS,
    pub defs: Defs,
    pub json: String,
}

pub struct SchemaGen<'r> {
    rng: &'r mut Rng,
    counter: u32,
    pub defs: Defs,
    /// names currently being defined (available for recursive references)
    open: Vec<String>,
    pub max_depth: u32,
    pub max_width: usize,
    pub logical: bool,
    pub allow_recursion: bool,
    pub allow_float: bool,
}

const NAMESPACES: [Option<&str>; 5] = [None, Some("a"), Some("a.b"), Some("z9"), Some("org.example_1")];

fn max_precision_for(size: usize) -> u32 {
    // floor(log10(2^(8n-1)-1))
    (((8 * size - 1) as f64) * std::f64::consts::LOG10_2).floor() as u32
}

impl<'r> SchemaGen<'r> {
    pub fn new(rng: &'r mut Rng) -> Self {
        SchemaGen {
            rng,
            counter: 0,
            defs: Defs::new(),
            open: vec![],
            max_depth: 4,
            max_width: 5,
            logical: true,
            allow_recursion: true,
            allow_float: true,
        }
    }

    fn fresh_name(&mut self, prefix: &str, enclosing: Option<&str>) -> (String, NameStyle) {
        self.counter += 1;
        let short = match self.rng.below(4) {
            0 => format!("{prefix}{}", self.counter),
            1 => format!("_{prefix}_{}", self.counter),
            2 => format!("{}{}x", prefix.to_lowercase(), self.counter),
            _ => format!("{prefix}{}_", self.counter),
        };
        // choose namespace: mostly inherit
        let inherit = self.rng.chance(1, 2);
        if inherit {
            let full = match enclosing {
                Some(ns) if !ns.is_empty() => format!("{ns}.{short}"),
                _ => short.clone(),
            };
            (full, NameStyle::Inherit)
        } else {
            let ns = *self.rng.pick(&NAMESPACES);
            match ns {
                None => {
                    // a name without namespace inside a namespaced context must say so explicitly:
                    // "namespace": "" ; we avoid this subtle case unless the enclosing ns is none
                    match enclosing {
                        Some(e) if !e.is_empty() => {
                            let full = format!("{e}.{short}");
                            (full, NameStyle::Inherit)
                        }
                        _ => (short, NameStyle::Inherit),
                    }
                }
                Some(ns) => {
                    let full = format!("{ns}.{short}");
                    let style = if self.rng.chance(1, 2) { NameStyle::Dotted } else { NameStyle::NsAttr };
                    (full, style)
                }
            }
        }
    }

    pub fn gen_root(&mut self) -> RS {
        let d = self.max_depth;
        self.gen(d, None, true)
    }

    fn prim(&mut self) -> RS {
        let n = if self.allow_float { 8 } else { 6 };
        match self.rng.below(n) {
            0 => RS::Null,
            1 => RS::Boolean,
            2 => RS::Int,
            3 => RS::Long,
            4 => RS::Bytes,
            5 => RS::String,
            6 => RS::Float,
            _ => RS::Double,
        }
    }

    fn gen_logical(&mut self, enclosing: Option<&str>) -> RS {
        match self.rng.below(15) {
            0 => {
                let precision = self.rng.range(1, 30) as u32;
                let scale = self.rng.range(0, precision as u64) as u32;
                RS::Logical(Logical::DecimalBytes { precision, scale }, Box::new(RS::Bytes))
            }
            1 => {
                let size = self.rng.range(1, 12) as usize;
                let maxp = max_precision_for(size).max(1);
                let precision = self.rng.range(1, maxp as u64) as u32;
                let scale = self.rng.range(0, precision as u64) as u32;
                let (full, style) = self.fresh_name("Dec", enclosing);
                RS::Logical(
                    Logical::DecimalFixed { precision, scale },
                    Box::new(RS::Fixed { full, style, size }),
                )
            }
            2 => RS::Logical(Logical::BigDecimal, Box::new(RS::Bytes)),
            3 => RS::Logical(Logical::UuidString, Box::new(RS::String)),
            4 => {
                let (full, style) = self.fresh_name("Uu", enclosing);
                RS::Logical(Logical::UuidFixed, Box::new(RS::Fixed { full, style, size: 16 }))
            }
            5 => RS::Logical(Logical::Date, Box::new(RS::Int)),
            6 => RS::Logical(Logical::TimeMillis, Box::new(RS::Int)),
            7 => RS::Logical(Logical::TimeMicros, Box::new(RS::Long)),
            8 => RS::Logical(Logical::TimestampMillis, Box::new(RS::Long)),
            9 => RS::Logical(Logical::TimestampMicros, Box::new(RS::Long)),
            10 => RS::Logical(Logical::TimestampNanos, Box::new(RS::Long)),
            11 => RS::Logical(Logical::LocalTimestampMillis, Box::new(RS::Long)),
            12 => RS::Logical(Logical::LocalTimestampMicros, Box::new(RS::Long)),
            13 => RS::Logical(Logical::LocalTimestampNanos, Box::new(RS::Long)),
            _ => {
                let (full, style) = self.fresh_name("Dur", enclosing);
                RS::Logical(Logical::Duration, Box::new(RS::Fixed { full, style, size: 12 }))
            }
        }
    }

    fn make_ref(&mut self, full: &str, enclosing: Option<&str>) -> RS {
        let (ns, _) = split_full(full);
        let same_ns = match (ns, enclosing) {
            (None, None) => true,
            (None, Some(e)) => e.is_empty(),
            (Some(n), Some(e)) => n == e,
            (Some(_), None) => false,
        };
        // a namespace-less name referenced from inside a namespace can only be written short
        // when the enclosing namespace is empty; with a dot-less full name inside a namespace the
        // reference would resolve to the enclosing namespace, so such refs are never generated.
        let short = same_ns && self.rng.chance(1, 2);
        RS::Ref { full: full.to_string(), short }
    }

    fn referencable(&self, enclosing: Option<&str>) -> Vec<String> {
        // names whose reference can be written unambiguously from this context
        let mut v: Vec<String> = vec![];
        for k in self.defs.keys().chain(self.open.iter()) {
            let (ns, _) = split_full(k);
            let ok = match (ns, enclosing) {
                (Some(_), _) => true, // dotted full name is always unambiguous
                (None, None) => true,
                (None, Some(e)) => e.is_empty(),
            };
            if ok && !v.contains(k) {
                v.push(k.clone());
            }
        }
        v
    }

    /// `nullable_ctx`: true when a finite value exists without descending (so recursion is safe below)
    fn gen(&mut self, depth: u32, enclosing: Option<&str>, top: bool) -> RS {
        if depth == 0 {
            return if self.logical && self.rng.chance(1, 4) { self.gen_logical(enclosing) } else { self.prim() };
        }
        let roll = self.rng.below(if top { 14 } else { 20 });
        match roll {
            0..=3 => self.gen_record(depth, enclosing),
            4 => self.gen_enum(enclosing),
            5 => {
                let (full, style) = self.fresh_name("Fx", enclosing);
                let size = *self.rng.pick(&[0usize, 1, 2, 7, 16, 33]);
                let rs = RS::Fixed { full: full.clone(), style, size };
                self.defs.insert(full, rs.clone());
                rs
            }
            6..=7 => RS::Array(Box::new(self.gen(depth - 1, enclosing, false))),
            8 => RS::Map(Box::new(self.gen(depth - 1, enclosing, false))),
            9..=11 => self.gen_union(depth, enclosing),
            12 => {
                if self.logical {
                    self.gen_logical(enclosing)
                } else {
                    self.prim()
                }
            }
            13 => {
                // reference to an already *completed* definition (not an open one: that needs a guard)
                let cands: Vec<String> = self
                    .referencable(enclosing)
                    .into_iter()
                    .filter(|n| self.defs.contains_key(n))
                    .collect();
                if cands.is_empty() {
                    self.prim()
                } else {
                    let f = self.rng.pick(&cands).clone();
                    self.make_ref(&f, enclosing)
                }
            }
            _ => self.prim(),
        }
    }

    fn gen_enum(&mut self, enclosing: Option<&str>) -> RS {
        let (full, style) = self.fresh_name("En", enclosing);
        let n = self.rng.range(1, 5) as usize;
        let symbols = (0..n).map(|i| format!("S{i}_{}", self.counter)).collect();
        let rs = RS::Enum { full: full.clone(), style, symbols };
        self.defs.insert(full, rs.clone());
        rs
    }

    fn gen_record(&mut self, depth: u32, enclosing: Option<&str>) -> RS {
        let (full, style) = self.fresh_name("Rec", enclosing);
        let (ns, _) = split_full(&full);
        let ns_owned = ns.map(|s| s.to_string());
        self.open.push(full.clone());
        let nf = self.rng.range(0, self.max_width as u64) as usize;
        let mut fields = vec![];
        for i in 0..nf {
            let fname = match self.rng.below(3) {
                0 => format!("f{i}"),
                1 => format!("field_{i}"),
                _ => format!("F{i}x"),
            };
            let fs = if self.allow_recursion && self.rng.chance(1, 8) && !self.open.is_empty() {
                // guarded recursive reference
                let cands: Vec<String> = self
                    .referencable(ns_owned.as_deref())
                    .into_iter()
                    .filter(|n| self.open.contains(n))
                    .collect();
                if cands.is_empty() {
                    self.gen(depth - 1, ns_owned.as_deref(), false)
                } else {
                    let target = self.rng.pick(&cands).clone();
                    let r = self.make_ref(&target, ns_owned.as_deref());
                    match self.rng.below(3) {
                        0 => RS::Union(vec![RS::Null, r]),
                        1 => RS::Array(Box::new(r)),
                        _ => RS::Map(Box::new(r)),
                    }
                }
            } else {
                self.gen(depth - 1, ns_owned.as_deref(), false)
            };
            fields.push((fname, fs));
        }
        self.open.pop();
        let rs = RS::Record { full: full.clone(), style, fields };
        self.defs.insert(full, rs.clone());
        rs
    }

    fn gen_union(&mut self, depth: u32, enclosing: Option<&str>) -> RS {
        // unique unnamed kinds; several named branches allowed
        let n = self.rng.range(1, 5) as usize;
        let mut kinds_used: Vec<&'static str> = vec![];
        let mut branches = vec![];
        let mut tries = 0;
        while branches.len() < n && tries < 20 {
            tries += 1;
            let b = match self.rng.below(12) {
                0 => RS::Null,
                1 => RS::Null,
                2..=5 => self.prim(),
                6 => {
                    if depth > 0 {
                        self.gen_record(depth.min(2), enclosing)
                    } else {
                        self.prim()
                    }
                }
                7 => self.gen_enum(enclosing),
                8 => RS::Array(Box::new(self.gen(depth.saturating_sub(1).min(1), enclosing, false))),
                9 => RS::Map(Box::new(self.gen(depth.saturating_sub(1).min(1), enclosing, false))),
                10 => {
                    let (full, style) = self.fresh_name("Fu", enclosing);
                    let rs = RS::Fixed { full: full.clone(), style, size: *self.rng.pick(&[1usize, 4, 9]) };
                    self.defs.insert(full, rs.clone());
                    rs
                }
                _ => {
                    if self.logical {
                        self.gen_logical(enclosing)
                    } else {
                        self.prim()
                    }
                }
            };
            let kind = union_kind(&b);
            if kind != "named" && kinds_used.contains(&kind) {
                continue;
            }
            kinds_used.push(kind);
            branches.push(b);
        }
        if branches.is_empty() {
            branches.push(RS::Null);
        }
        RS::Union(branches)
    }
}

/// Kind used for the "unions may not contain more than one schema with the same type" rule;
/// logical types count as their base type (conservative: the generator never emits
/// e.g. ["int", date]).
pub fn union_kind(s: &RS) -> &'static str {
    match s {
        RS::Null => "null",
        RS::Boolean => "boolean",
        RS::Int => "int",
        RS::Long => "long",
        RS::Float => "float",
        RS::Double => "double",
        RS::Bytes => "bytes",
        RS::String => "string",
        RS::Array(_) => "array",
        RS::Map(_) => "map",
        RS::Union(_) => "union",
        RS::Record { .. } | RS::Enum { .. } | RS::Fixed { .. } | RS::Ref { .. } => "named",
        RS::Logical(_, base) => match **base {
            RS::Fixed { .. } => "named",
            _ => union_kind(base),
        },
    }
}

// ------------------------------------------------------------------------------------------------
// JSON emission

fn name_fields(m: &mut JMap<String, J>, full: &str, style: &NameStyle) {
    let (ns, short) = split_full(full);
    match style {
        NameStyle::Dotted => {
            m.insert("name".into(), J::String(full.to_string()));
        }
        NameStyle::NsAttr => {
            m.insert("name".into(), J::String(short.to_string()));
            if let Some(ns) = ns {
                m.insert("namespace".into(), J::String(ns.to_string()));
            }
        }
        NameStyle::Inherit => {
            m.insert("name".into(), J::String(short.to_string()));
        }
    }
}

pub fn to_json(s: &RS) -> J {
    match s {
        RS::Null => json!("null"),
        RS::Boolean => json!("boolean"),
        RS::Int => json!("int"),
        RS::Long => json!("long"),
        RS::Float => json!("float"),
        RS::Double => json!("double"),
        RS::Bytes => json!("bytes"),
        RS::String => json!("string"),
        RS::Record { full, style, fields } => {
            let mut m = JMap::new();
            m.insert("type".into(), json!("record"));
            name_fields(&mut m, full, style);
            let fs: Vec<J> = fields.iter().map(|(n, t)| json!({"name": n, "type": to_json(t)})).collect();
            m.insert("fields".into(), J::Array(fs));
            J::Object(m)
        }
        RS::Enum { full, style, symbols } => {
            let mut m = JMap::new();
            m.insert("type".into(), json!("enum"));
            name_fields(&mut m, full, style);
            m.insert("symbols".into(), json!(symbols));
            J::Object(m)
        }
        RS::Fixed { full, style, size } => {
            let mut m = JMap::new();
            m.insert("type".into(), json!("fixed"));
            name_fields(&mut m, full, style);
            m.insert("size".into(), json!(size));
            J::Object(m)
        }
        RS::Array(i) => json!({"type": "array", "items": to_json(i)}),
        RS::Map(v) => json!({"type": "map", "values": to_json(v)}),
        RS::Union(bs) => J::Array(bs.iter().map(to_json).collect()),
        RS::Ref { full, short } => {
            if *short {
                J::String(split_full(full).1.to_string())
            } else {
                J::String(full.clone())
            }
        }
        RS::Logical(l, base) => {
            let mut m = match to_json(base) {
                J::String(t) => {
                    let mut m = JMap::new();
                    m.insert("type".into(), J::String(t));
                    m
                }
                J::Object(m) => m,
                other => panic!("logical over {other:?}"),
            };
            m.insert("logicalType".into(), json!(l.name()));
            match l {
                Logical::DecimalBytes { precision, scale } | Logical::DecimalFixed { precision, scale } => {
                    m.insert("precision".into(), json!(precision));
                    m.insert("scale".into(), json!(scale));
                }
                _ => {}
            }
            J::Object(m)
        }
    }
}

pub fn gen_schema(rng: &mut Rng, max_depth: u32, logical: bool) -> GenSchema {
    let mut g = SchemaGen::new(rng);
    g.max_depth = max_depth;
    g.logical = logical;
    let root = g.gen_root();
    let defs = g.defs;
    let json = serde_json::to_string(&to_json(&root)).unwrap();
    GenSchema { root, defs, json }
}

// ------------------------------------------------------------------------------------------------
// Values

const INT_EDGES: [i32; 16] = [
    0, -1, 1, 63, 64, -64, -65, 8191, 8192, -8192, -8193, 1048575, 1048576, i32::MAX, i32::MIN, 134217728,
];
const LONG_EDGES: [i64; 20] = [
    0,
    -1,
    1,
    63,
    64,
    -64,
    -65,
    8191,
    8192,
    -8193,
    (1 << 34) - 1,
    1 << 34,
    (1 << 41) - 1,
    -(1 << 48) - 1,
    1 << 55,
    (1 << 62) - 1,
    1 << 62,
    -(1 << 62) - 1,
    i64::MAX,
    i64::MIN,
];
const F32_EDGES: [u32; 8] =
    [0, 0x8000_0000, 0x7F80_0000, 0xFF80_0000, 0x7FC0_0000, 0x7FC0_0001, 0xFFC1_2345, 0x3F80_0000];
const F64_EDGES: [u64; 8] = [
    0,
    0x8000_0000_0000_0000,
    0x7FF0_0000_0000_0000,
    0xFFF0_0000_0000_0000,
    0x7FF8_0000_0000_0000,
    0x7FF8_0000_0000_0001,
    0xFFF8_1234_5678_9ABC,
    0x3FF0_0000_0000_0000,
];
const STRS: [&str; 8] = ["", "a", "héllo", "日本語", "\u{1F600}x", "line\nbreak", "\0nul", "plain ascii text"];

pub struct ValueGen<'a> {
    pub defs: &'a Defs,
    /// maximum collection length
    pub max_len: usize,
    /// maximum bytes/string length for "long" draws
    pub max_blob: usize,
    /// maps get at most this many entries (1 for fault-keyed workloads)
    pub max_map: usize,
}

impl<'a> ValueGen<'a> {
    pub fn new(defs: &'a Defs) -> Self {
        ValueGen { defs, max_len: 4, max_blob: 300, max_map: 3 }
    }

    fn blob(&self, rng: &mut Rng) -> Vec<u8> {
        let n = match rng.below(8) {
            0 => 0,
            1 => 1,
            2 => 63,
            3 => 64,
            4 => rng.range(65, self.max_blob.max(66) as u64) as usize,
            _ => rng.range(0, 12) as usize,
        };
        rng.bytes(n.min(self.max_blob.max(64)))
    }

    fn string(&self, rng: &mut Rng) -> String {
        match rng.below(4) {
            0 => (*rng.pick(&STRS)).to_string(),
            1 => {
                let n = *rng.pick(&[0usize, 1, 63, 64, 65, 20]);
                let n = n.min(self.max_blob.max(64));
                (0..n).map(|i| (b'a' + ((i as u64 + rng.below(3)) % 26) as u8) as char).collect()
            }
            2 => {
                let n = rng.range(0, 6) as usize;
                (0..n).map(|_| *rng.pick(&['é', 'ß', '日', 'x', '\u{1F600}', ' '])).collect()
            }
            _ => format!("s{}", rng.below(1000)),
        }
    }

    pub fn gen(&self, rng: &mut Rng, s: &RS, depth: u32) -> RV {
        match s {
            RS::Null => RV::Null,
            RS::Boolean => RV::Bool(rng.chance(1, 2)),
            RS::Int => RV::Int(if rng.chance(2, 3) { *rng.pick(&INT_EDGES) } else { rng.next_u64() as i32 }),
            RS::Long => RV::Long(if rng.chance(2, 3) {
                *rng.pick(&LONG_EDGES)
            } else {
                let sh = rng.below(64);
                (rng.next_u64() >> sh) as i64 * if rng.chance(1, 2) { -1 } else { 1 }
            }),
            RS::Float => RV::Float(if rng.chance(1, 2) { *rng.pick(&F32_EDGES) } else { rng.next_u64() as u32 }),
            RS::Double => RV::Double(if rng.chance(1, 2) { *rng.pick(&F64_EDGES) } else { rng.next_u64() }),
            RS::Bytes => RV::Bytes(self.blob(rng)),
            RS::String => RV::Str(self.string(rng)),
            RS::Fixed { size, .. } => RV::Fixed(rng.bytes(*size)),
            RS::Enum { symbols, .. } => RV::Enum(rng.below(symbols.len() as u64) as u32),
            RS::Record { fields, .. } => RV::Record(fields.iter().map(|(_, t)| self.gen(rng, t, depth + 1)).collect()),
            RS::Array(i) => {
                let n = if depth > 5 { 0 } else { self.coll_len(rng) };
                RV::Array((0..n).map(|_| self.gen(rng, i, depth + 1)).collect())
            }
            RS::Map(v) => {
                let n = if depth > 5 { 0 } else { self.coll_len(rng).min(self.max_map) };
                let mut out: Vec<(String, RV)> = vec![];
                for k in 0..n {
                    let key = match rng.below(3) {
                        0 => format!("k{k}"),
                        1 => format!("ключ{k}"),
                        _ => format!("{k}"),
                    };
                    out.push((key, self.gen(rng, v, depth + 1)));
                }
                RV::Map(out)
            }
            RS::Union(bs) => {
                // past the depth budget pick the shallowest branch (null if present)
                let i = if depth > 5 {
                    bs.iter().position(|b| matches!(b, RS::Null)).unwrap_or_else(|| {
                        bs.iter().position(|b| !matches!(b, RS::Ref { .. } | RS::Record { .. })).unwrap_or(0)
                    })
                } else {
                    rng.usize_below(bs.len())
                };
                RV::Union(i as u32, Box::new(self.gen(rng, &bs[i], depth + 1)))
            }
            RS::Ref { full, .. } => {
                let t = self.defs.get(full.trim_start_matches('.')).unwrap_or_else(|| panic!("gen: unknown ref {full}"));
                self.gen(rng, t, depth + 1)
            }
            RS::Logical(l, base) => self.gen_logical(rng, l, base),
        }
    }

    fn coll_len(&self, rng: &mut Rng) -> usize {
        match rng.below(5) {
            0 => 0,
            1 => 1,
            _ => rng.range(0, self.max_len as u64) as usize,
        }
    }

    fn gen_logical(&self, rng: &mut Rng, l: &Logical, base: &RS) -> RV {
        match l {
            Logical::DecimalBytes { .. } => {
                // any non-empty two's complement byte string, incl. non-minimal, negative, max width
                let n = *rng.pick(&[1usize, 1, 2, 3, 8, 13, 16]);
                let mut b = rng.bytes(n);
                match rng.below(5) {
                    0 => b[0] = 0xFF,
                    1 => b[0] = 0x00,
                    2 => b[0] = 0x80,
                    3 => b[0] = 0x7F,
                    _ => {}
                }
                RV::Bytes(b)
            }
            Logical::DecimalFixed { .. } => {
                let size = match base {
                    RS::Fixed { size, .. } => *size,
                    _ => unreachable!(),
                };
                let mut b = rng.bytes(size);
                match rng.below(5) {
                    0 => b.iter_mut().for_each(|x| *x = 0xFF),
                    1 => b.iter_mut().for_each(|x| *x = 0),
                    2 => {
                        b.iter_mut().for_each(|x| *x = 0xFF);
                        b[0] = 0x7F
                    }
                    3 => {
                        b.iter_mut().for_each(|x| *x = 0);
                        b[0] = 0x80
                    }
                    _ => {}
                }
                RV::Fixed(b)
            }
            Logical::BigDecimal => {
                // inner buffer: bytes(minimal signed BE unscaled) ++ long(scale)
                let unscaled: i128 = match rng.below(5) {
                    0 => 0,
                    1 => -1,
                    2 => i128::MAX,
                    3 => i128::MIN + 1,
                    _ => (rng.next_u64() as i128) << rng.below(60) as i128 ^ (rng.next_u64() as i128),
                };
                let bi = num_bigint::BigInt::from(unscaled);
                let ub = bi.to_signed_bytes_be();
                let scale: i64 = *rng.pick(&[0i64, 1, 2, 18, -3, 63, 64, 200]);
                let mut inner = vec![];
                crate::refimpl::put_long(&mut inner, ub.len() as i64);
                inner.extend_from_slice(&ub);
                crate::refimpl::put_long(&mut inner, scale);
                RV::Bytes(inner)
            }
            Logical::UuidString => {
                let b = rng.bytes(16);
                let u = uuid::Uuid::from_slice(&b).unwrap();
                RV::Str(u.hyphenated().to_string())
            }
            Logical::UuidFixed => RV::Fixed(rng.bytes(16)),
            Logical::Date | Logical::TimeMillis => self.gen(rng, &RS::Int, 0),
            Logical::TimeMicros
            | Logical::TimestampMillis
            | Logical::TimestampMicros
            | Logical::TimestampNanos
            | Logical::LocalTimestampMillis
            | Logical::LocalTimestampMicros
            | Logical::LocalTimestampNanos => self.gen(rng, &RS::Long, 0),
            Logical::Duration => {
                let mut b = rng.bytes(12);
                if rng.chance(1, 4) {
                    b.iter_mut().for_each(|x| *x = 0xFF);
                }
                RV::Fixed(b)
            }
        }
    }
}

// ------------------------------------------------------------------------------------------------
// Conversion to the library's value type (canonical form) and comparison

pub fn to_avro(v: &RV, s: &RS, defs: &Defs) -> Value {
    match (s, v) {
        (RS::Ref { full, .. }, _) => to_avro(v, &defs[full.trim_start_matches('.')], defs),
        (RS::Null, RV::Null) => Value::Null,
        (RS::Boolean, RV::Bool(b)) => Value::Boolean(*b),
        (RS::Int, RV::Int(i)) => Value::Int(*i),
        (RS::Long, RV::Long(i)) => Value::Long(*i),
        (RS::Float, RV::Float(b)) => Value::Float(f32::from_bits(*b)),
        (RS::Double, RV::Double(b)) => Value::Double(f64::from_bits(*b)),
        (RS::Bytes, RV::Bytes(b)) => Value::Bytes(b.clone()),
        (RS::String, RV::Str(s)) => Value::String(s.clone()),
        (RS::Fixed { size, .. }, RV::Fixed(b)) => Value::Fixed(*size, b.clone()),
        (RS::Enum { symbols, .. }, RV::Enum(i)) => Value::Enum(*i, symbols[*i as usize].clone()),
        (RS::Record { fields, .. }, RV::Record(vs)) => Value::Record(
            fields.iter().zip(vs.iter()).map(|((n, t), v)| (n.clone(), to_avro(v, t, defs))).collect(),
        ),
        (RS::Array(t), RV::Array(vs)) => Value::Array(vs.iter().map(|v| to_avro(v, t, defs)).collect()),
        (RS::Map(t), RV::Map(es)) => {
            Value::Map(es.iter().map(|(k, v)| (k.clone(), to_avro(v, t, defs))).collect::<HashMap<_, _>>())
        }
        (RS::Union(bs), RV::Union(i, inner)) => Value::Union(*i, Box::new(to_avro(inner, &bs[*i as usize], defs))),
        (RS::Logical(l, _), v) => logical_to_avro(l, v),
        (s, v) => panic!("to_avro: value {v:?} does not fit schema {s:?}"),
    }
}

fn logical_to_avro(l: &Logical, v: &RV) -> Value {
    match (l, v) {
        (Logical::DecimalBytes { .. }, RV::Bytes(b)) => Value::Decimal(Decimal::from(b.clone())),
        (Logical::DecimalFixed { .. }, RV::Fixed(b)) => Value::Decimal(Decimal::from(b.clone())),
        (Logical::BigDecimal, RV::Bytes(inner)) => {
            let mut p = 0usize;
            let n = crate::refimpl::get_long(inner, &mut p).unwrap() as usize;
            let ub = &inner[p..p + n];
            p += n;
            let scale = crate::refimpl::get_long(inner, &mut p).unwrap();
            let bi = num_bigint::BigInt::from_signed_bytes_be(ub);
            Value::BigDecimal(bigdecimal::BigDecimal::new(bi, scale))
        }
        (Logical::UuidString, RV::Str(s)) => Value::Uuid(uuid::Uuid::parse_str(s).unwrap()),
        (Logical::UuidFixed, RV::Fixed(b)) => Value::Uuid(uuid::Uuid::from_slice(b).unwrap()),
        (Logical::Date, RV::Int(i)) => Value::Date(*i),
        (Logical::TimeMillis, RV::Int(i)) => Value::TimeMillis(*i),
        (Logical::TimeMicros, RV::Long(i)) => Value::TimeMicros(*i),
        (Logical::TimestampMillis, RV::Long(i)) => Value::TimestampMillis(*i),
        (Logical::TimestampMicros, RV::Long(i)) => Value::TimestampMicros(*i),
        (Logical::TimestampNanos, RV::Long(i)) => Value::TimestampNanos(*i),
        (Logical::LocalTimestampMillis, RV::Long(i)) => Value::LocalTimestampMillis(*i),
        (Logical::LocalTimestampMicros, RV::Long(i)) => Value::LocalTimestampMicros(*i),
        (Logical::LocalTimestampNanos, RV::Long(i)) => Value::LocalTimestampNanos(*i),
        (Logical::Duration, RV::Fixed(b)) => {
            let a: [u8; 12] = b.as_slice().try_into().unwrap();
            Value::Duration(Duration::from(a))
        }
        (l, v) => panic!("logical_to_avro: {l:?} {v:?}"),
    }
}

/// Equality for oracle purposes: floats bit-for-bit, decimals numerically, maps unordered.
pub fn avro_eq(a: &Value, b: &Value) -> bool {
    match (a, b) {
        (Value::Float(x), Value::Float(y)) => x.to_bits() == y.to_bits(),
        (Value::Double(x), Value::Double(y)) => x.to_bits() == y.to_bits(),
        (Value::Union(i, x), Value::Union(j, y)) => i == j && avro_eq(x, y),
        (Value::Array(x), Value::Array(y)) => x.len() == y.len() && x.iter().zip(y).all(|(p, q)| avro_eq(p, q)),
        (Value::Map(x), Value::Map(y)) => {
            x.len() == y.len() && x.iter().all(|(k, v)| y.get(k).is_some_and(|w| avro_eq(v, w)))
        }
        (Value::Record(x), Value::Record(y)) => {
            x.len() == y.len() && x.iter().zip(y).all(|((n, p), (m, q))| n == m && avro_eq(p, q))
        }
        (Value::BigDecimal(x), Value::BigDecimal(y)) => x == y,
        (Value::Decimal(x), Value::Decimal(y)) => x == y,
        _ => a == b,
    }
}

/// Short description for evidence samples and traces (never fed back into the run).
pub fn describe_value(v: &Value) -> String {
    let s = format!("{v:?}");
    if s.chars().count() > 160 {
        let head: String = s.chars().take(150).collect();
        format!("{head}...({} chars)", s.chars().count())
    } else {
        s
    }
}

/// Canonical form of a value for order-insensitive comparison: map entries sorted by key.
pub fn canon(v: &RV) -> RV {
    match v {
        RV::Union(i, x) => RV::Union(*i, Box::new(canon(x))),
        RV::Array(xs) => RV::Array(xs.iter().map(canon).collect()),
        RV::Record(xs) => RV::Record(xs.iter().map(canon).collect()),
        RV::Map(es) => {
            let mut es: Vec<(String, RV)> = es.iter().map(|(k, v)| (k.clone(), canon(v))).collect();
            es.sort_by(|a, b| a.0.cmp(&b.0));
            RV::Map(es)
        }
        other => other.clone(),
    }
}

/// Do `got` bytes hold exactly one datum equal to `expected`, ignoring the order of map entries?
pub fn same_datum(got: &[u8], expected: &RV, s: &RS, defs: &Defs) -> bool {
    let mut p = 0;
    let mut budget = 1_000_000;
    match crate::refimpl::decode(s, defs, got, &mut p, &mut budget) {
        Some(v) => p == got.len() && canon(&v) == canon(expected),
        None => false,
    }
}

/// All named definitions inside a schema tree, by full name.
pub fn collect_defs(s: &RS, out: &mut Defs) {
    match s {
        RS::Record { full, fields, .. } => {
            out.insert(full.clone(), s.clone());
            for (_, t) in fields {
                collect_defs(t, out);
            }
        }
        RS::Enum { full, .. } | RS::Fixed { full, .. } => {
            out.insert(full.clone(), s.clone());
        }
        RS::Array(t) | RS::Map(t) => collect_defs(t, out),
        RS::Union(bs) => bs.iter().for_each(|b| collect_defs(b, out)),
        // a logical type over a fixed is a named definition too (registered with its annotation)
        RS::Logical(_, base) => {
            if let RS::Fixed { full, .. } = &**base {
                out.insert(full.clone(), s.clone());
            }
        }
        _ => {}
    }
}

pub fn defs_of(s: &RS) -> Defs {
    let mut d = Defs::new();
    collect_defs(s, &mut d);
    d
}

// ------------------------------------------------------------------------------------------------
// Near-miss values: rejected by validation for certain

/// A value that `validate` rejects for the schema (wrong kind at the root).
pub fn wrong_kind_value(s: &RS, defs: &Defs) -> Value {
    let s = deref(s, defs);
    match s {
        RS::Null | RS::Boolean | RS::Int | RS::Long | RS::Float | RS::Double => Value::String("wrong".into()),
        RS::Logical(_, _) => Value::Array(vec![Value::Boolean(true)]),
        RS::Union(bs) => Value::Union(bs.len() as u32 + 3, Box::new(Value::Null)),
        _ => Value::Boolean(true),
    }
}

pub fn deref<'a>(s: &'a RS, defs: &'a Defs) -> &'a RS {
    match s {
        RS::Ref { full, .. } => deref(&defs[full.trim_start_matches('.')], defs),
        _ => s,
    }
}

/// Try to build a value that passes the *first part* of encoding but fails later, or that is
/// rejected deep inside: a record whose last field has the wrong kind. Returns None when the schema
/// is not a record with >= 2 fields.
pub fn late_failing_record(rng: &mut Rng, s: &RS, defs: &Defs, vg: &ValueGen) -> Option<Value> {
    let s = deref(s, defs);
    if let RS::Record { fields, .. } = s {
        if fields.len() >= 2 {
            let mut out = vec![];
            for (i, (n, t)) in fields.iter().enumerate() {
                if i + 1 == fields.len() {
                    out.push((n.clone(), wrong_kind_value(t, defs)));
                } else {
                    let v = vg.gen(rng, t, 1);
                    out.push((n.clone(), to_avro(&v, t, defs)));
                }
            }
            return Some(Value::Record(out));
        }
    }
    None
}
