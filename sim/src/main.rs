//! avrosim - deterministic simulation with fault injection for apache-avro.

mod alloc;
mod anyvalue;
mod c03;
mod c05;
mod c06;
mod c13;
mod c14;
mod c18;
mod c19;
mod c20;
mod common;
mod corpus;
mod gen;
mod harness;
mod refimpl;
mod rng;
mod seams;

use harness::{Property, Tier};

#[global_allocator]
static GLOBAL: alloc::CountingAlloc = alloc::CountingAlloc;

fn usage() -> ! {
    eprintln!("usage: avrosim check <ID> <quick|thorough> | replay <file> | selfcheck [ID]");
    std::process::exit(2)
}

macro_rules! dispatch {
    ($id:expr, $p:ident => $body:expr) => {
        match $id {
            "C03" => {
                let $p = c03::C03;
                $body
            }
            "C06" => {
                let $p = c06::C06;
                $body
            }
            "C13" => {
                let $p = c13::C13;
                $body
            }
            "C14" => {
                let $p = c14::C14;
                $body
            }
            "C18" => {
                let $p = c18::C18;
                $body
            }
            "C19" => {
                let $p = c19::C19;
                $body
            }
            "C20" => {
                let $p = c20::C20;
                $body
            }
            other => {
                eprintln!("unknown property {other}");
                std::process::exit(2)
            }
        }
    };
}

fn seed() -> u64 {
    std::env::var("VERIF_SEED").ok().and_then(|s| s.parse().ok()).unwrap_or(1)
}

fn main() {
    harness::install_panic_hook();
    let args: Vec<String> = std::env::args().collect();
    if args.len() < 2 {
        usage();
    }
    match args[1].as_str() {
        "check" => {
            if args.len() < 4 {
                usage();
            }
            let tier = match std::env::var("VERIF_TIER").ok().as_deref().unwrap_or(args[3].as_str()) {
                "thorough" => Tier::Thorough,
                _ => Tier::Quick,
            };
            let tier = if args[3] == "thorough" { Tier::Thorough } else { tier };
            println!("VERIF_SEED={}", seed());
            if args[2] == "C05" {
                std::process::exit(c05::check(seed(), tier));
            }
            let code = dispatch!(args[2].as_str(), p => harness::check(&p, seed(), tier).exit_code);
            std::process::exit(code);
        }
        "replay" => {
            if args.len() < 3 {
                usage();
            }
            let text = match std::fs::read_to_string(&args[2]) {
                Ok(t) => t,
                Err(e) => {
                    println!("HARNESS-ERROR cannot read {}: {e}", args[2]);
                    std::process::exit(2)
                }
            };
            let doc: serde_json::Value = match serde_json::from_str(&text) {
                Ok(d) => d,
                Err(e) => {
                    println!("HARNESS-ERROR cannot parse {}: {e}", args[2]);
                    std::process::exit(2)
                }
            };
            let id = doc["property"].as_str().unwrap_or("").to_string();
            if id == "C05" {
                std::process::exit(c05::replay_in_child(&args[2]));
            }
            if id == "C19" && doc["engine"] == "miri" {
                std::process::exit(c19::replay_miri(&doc, &args[2]));
            }
            let code = dispatch!(id.as_str(), p => harness::replay(&p, &doc, &args[2]));
            std::process::exit(code);
        }
        "c05child" => {
            std::process::exit(c05::child_main(&args[2..]));
        }
        "c19exec" => {
            std::process::exit(c19::exec_main());
        }
        "c05exec" => {
            std::process::exit(c05::exec_main(&args[2]));
        }
        "digest" => {
            // avrosim digest <ID> <runs> <workers>: prints the batch digest (determinism self-check)
            let runs: u64 = args.get(3).and_then(|s| s.parse().ok()).unwrap_or(200);
            let w: usize = args.get(4).and_then(|s| s.parse().ok()).unwrap_or(1);
            dispatch!(args[2].as_str(), p => {
                let (d, e, s) = harness::batch_digest(&p, seed(), Tier::Quick, runs, w);
                println!("{} digest={d:016x} evaluations={e} distinct={s}", p.id());
            });
        }
        _ => usage(),
    }
}
