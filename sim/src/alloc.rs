//! The allocator seam: a counting global allocator with a per-thread observation window.
//!
//! Inside a window (opened around one library call) it records the largest single request and the
//! peak of live bytes allocated in the window. A request above `HARD_CAP` is refused (null, which
//! makes Rust abort) after writing one line to stderr naming the run, so that a hostile length can
//! never take the VM down and the parent process can still name the input.

use std::alloc::{GlobalAlloc, Layout, System};
use std::cell::Cell;

pub struct CountingAlloc;

/// Requests above this are refused outright (the process aborts). Far above any bound the
/// oracle allows, far below the machine's memory.
pub const HARD_CAP: usize = 6 << 30;

thread_local! {
    static ACTIVE: Cell<bool> = const { Cell::new(false) };
    static LARGEST: Cell<usize> = const { Cell::new(0) };
    static LIVE: Cell<isize> = const { Cell::new(0) };
    static PEAK: Cell<isize> = const { Cell::new(0) };
    static COUNT: Cell<u64> = const { Cell::new(0) };
    /// run index the thread is working on (for the abort message)
    pub static CURRENT_RUN: Cell<u64> = const { Cell::new(u64::MAX) };
    pub static CURRENT_OP: Cell<u64> = const { Cell::new(0) };
}

extern "C" {
    fn write(fd: i32, buf: *const u8, n: usize) -> isize;
}

fn emit_abort_line(size: usize) {
    // no allocation, no locks: format by hand into a stack buffer
    let mut buf = [0u8; 96];
    let mut n = 0;
    let mut put = |s: &[u8], n: &mut usize| {
        for b in s {
            if *n < buf.len() {
                buf[*n] = *b;
                *n += 1;
            }
        }
    };
    fn dec(mut v: u64, out: &mut [u8; 20]) -> usize {
        let mut i = 20;
        if v == 0 {
            i -= 1;
            out[i] = b'0';
        }
        while v > 0 {
            i -= 1;
            out[i] = b'0' + (v % 10) as u8;
            v /= 10;
        }
        i
    }
    let run = CURRENT_RUN.try_with(|c| c.get()).unwrap_or(u64::MAX);
    let op = CURRENT_OP.try_with(|c| c.get()).unwrap_or(0);
    put(b"ALLOC-ABORT run=", &mut n);
    let mut d = [0u8; 20];
    let i = dec(run, &mut d);
    put(&d[i..], &mut n);
    put(b" op=", &mut n);
    let i = dec(op, &mut d);
    put(&d[i..], &mut n);
    put(b" size=", &mut n);
    let i = dec(size as u64, &mut d);
    put(&d[i..], &mut n);
    put(b"\n", &mut n);
    unsafe {
        write(2, buf.as_ptr(), n);
    }
}

#[inline]
fn on_alloc(size: usize) -> bool {
    if size > HARD_CAP {
        emit_abort_line(size);
        return false;
    }
    let _ = ACTIVE.try_with(|a| {
        if a.get() {
            let _ = LARGEST.try_with(|l| {
                if size > l.get() {
                    l.set(size)
                }
            });
            let _ = COUNT.try_with(|c| c.set(c.get() + 1));
            let _ = LIVE.try_with(|l| {
                let v = l.get() + size as isize;
                l.set(v);
                let _ = PEAK.try_with(|p| {
                    if v > p.get() {
                        p.set(v)
                    }
                });
            });
        }
    });
    true
}

#[inline]
fn on_dealloc(size: usize) {
    let _ = ACTIVE.try_with(|a| {
        if a.get() {
            let _ = LIVE.try_with(|l| l.set(l.get() - size as isize));
        }
    });
}

unsafe impl GlobalAlloc for CountingAlloc {
    unsafe fn alloc(&self, layout: Layout) -> *mut u8 {
        if !on_alloc(layout.size()) {
            return std::ptr::null_mut();
        }
        System.alloc(layout)
    }
    unsafe fn alloc_zeroed(&self, layout: Layout) -> *mut u8 {
        if !on_alloc(layout.size()) {
            return std::ptr::null_mut();
        }
        System.alloc_zeroed(layout)
    }
    unsafe fn dealloc(&self, ptr: *mut u8, layout: Layout) {
        on_dealloc(layout.size());
        System.dealloc(ptr, layout)
    }
    unsafe fn realloc(&self, ptr: *mut u8, layout: Layout, new_size: usize) -> *mut u8 {
        // a realloc requests `new_size` bytes
        if !on_alloc(new_size) {
            return std::ptr::null_mut();
        }
        on_dealloc(layout.size());
        System.realloc(ptr, layout, new_size)
    }
}

#[derive(Clone, Copy, Debug, Default)]
pub struct Window {
    pub largest: usize,
    pub peak_live: usize,
    pub allocations: u64,
}

/// Run `f` inside an observation window on this thread.
pub fn observe<T>(f: impl FnOnce() -> T) -> (T, Window) {
    LARGEST.with(|c| c.set(0));
    LIVE.with(|c| c.set(0));
    PEAK.with(|c| c.set(0));
    COUNT.with(|c| c.set(0));
    ACTIVE.with(|c| c.set(true));
    struct Off;
    impl Drop for Off {
        fn drop(&mut self) {
            ACTIVE.with(|c| c.set(false));
        }
    }
    let off = Off;
    let r = f();
    drop(off);
    let w = Window {
        largest: LARGEST.with(|c| c.get()),
        peak_live: PEAK.with(|c| c.get()).max(0) as usize,
        allocations: COUNT.with(|c| c.get()),
    };
    (r, w)
}
