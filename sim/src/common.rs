//! Shared configuration types and helpers.

use crate::gen::{Defs, RS, defs_of, to_json};
use crate::refimpl::RCodec;
use crate::rng::Rng;
use apache_avro::{Bzip2Settings, Codec, DeflateSettings, Schema, XzSettings, ZstandardSettings};
use serde::{Deserialize, Serialize};

#[derive(Clone, Debug, Serialize, Deserialize, PartialEq)]
pub enum CodecSpec {
    Null,
    Deflate(i8),
    Snappy,
    Bzip2(u8),
    Xz(u8),
    Zstd(u8),
}

impl CodecSpec {
    pub fn to_lib(&self) -> Codec {
        use miniz_oxide::deflate::CompressionLevel as L;
        match self {
            CodecSpec::Null => Codec::Null,
            CodecSpec::Deflate(l) => Codec::Deflate(DeflateSettings::new(match l {
                0 => L::NoCompression,
                1 => L::BestSpeed,
                9 => L::BestCompression,
                10 => L::UberCompression,
                6 => L::DefaultLevel,
                _ => L::DefaultCompression,
            })),
            CodecSpec::Snappy => Codec::Snappy,
            CodecSpec::Bzip2(l) => Codec::Bzip2(Bzip2Settings::new(*l)),
            CodecSpec::Xz(l) => Codec::Xz(XzSettings::new(*l)),
            CodecSpec::Zstd(l) => Codec::Zstandard(ZstandardSettings::new(*l)),
        }
    }
    pub fn to_ref(&self) -> RCodec {
        match self {
            CodecSpec::Null => RCodec::Null,
            CodecSpec::Deflate(_) => RCodec::Deflate,
            CodecSpec::Snappy => RCodec::Snappy,
            CodecSpec::Bzip2(_) => RCodec::Bzip2,
            CodecSpec::Xz(_) => RCodec::Xz,
            CodecSpec::Zstd(_) => RCodec::Zstd,
        }
    }
    pub fn kind(&self) -> &'static str {
        self.to_ref().name()
    }
    /// `heavy`: allow the slow codecs (xz, bzip2) too
    pub fn gen(rng: &mut Rng, heavy: bool) -> CodecSpec {
        match rng.below(if heavy { 10 } else { 7 }) {
            0..=2 => CodecSpec::Null,
            3 => CodecSpec::Deflate(*rng.pick(&[0i8, 1, 6, 9, -1])),
            4 => CodecSpec::Deflate(-1),
            5 => CodecSpec::Snappy,
            6 => CodecSpec::Zstd(*rng.pick(&[0u8, 1, 3, 9])),
            7 => CodecSpec::Bzip2(*rng.pick(&[1u8, 5, 9])),
            8 => CodecSpec::Xz(*rng.pick(&[0u8, 1, 6])),
            _ => CodecSpec::Zstd(1),
        }
    }
}

pub struct Parsed {
    pub schema: Schema,
    pub defs: Defs,
    pub json: String,
}

/// Emit the AST as JSON and have the library parse it. None if the library rejects it.
pub fn parse_rs(rs: &RS) -> Option<Parsed> {
    let json = serde_json::to_string(&to_json(rs)).unwrap();
    let schema = Schema::parse_str(&json).ok()?;
    Some(Parsed { schema, defs: defs_of(rs), json })
}

pub fn hex(b: &[u8]) -> String {
    let mut s = String::with_capacity(b.len() * 2);
    for x in b.iter().take(64) {
        s.push_str(&format!("{x:02x}"));
    }
    if b.len() > 64 {
        s.push_str(&format!("..({}B)", b.len()));
    }
    s
}

pub fn marker_from(rng: &mut Rng) -> [u8; 16] {
    let mut m = [0u8; 16];
    m.copy_from_slice(&rng.bytes(16));
    m
}
