//! C13 - writers never lose data silently on short writes or sink errors.
//!
//! One case = one write scenario. Executing a case first runs it against a perfect sink (the
//! reference execution), then enumerates accept policies and a single fault at every sink call
//! index; seeds only sample scenarios.

use crate::common::{CodecSpec, marker_from, parse_rs};
use crate::corpus::{self, Corp};
use crate::gen::{RS, RV, ValueGen, gen_schema, to_avro};
use crate::harness::{Ctx, Failure, Property, Tier, guarded};
use crate::refimpl;
use crate::rng::Rng;
use crate::seams::{Accept, SimSink, SinkPlan, WriteFault, WriteFaultKind};
use crate::with_corpus;
use apache_avro::schema::ResolvedSchema;
use apache_avro::writer::datum::GenericDatumWriter;
use apache_avro::{AvroSchema, GenericSingleObjectWriter, SpecificSingleObjectWriter, Writer, write_avro_datum_ref};
use serde::{Deserialize, Serialize};
use serde_json::{Value as J, json};

#[derive(Clone, Debug, Serialize, Deserialize)]
pub enum COp {
    AppendValueRef(RV),
    AppendValue(RV),
    Unvalidated(RV),
    ExtendFromSlice(Vec<RV>),
    Extend(Vec<RV>),
    Flush,
}

#[derive(Clone, Debug, Serialize, Deserialize)]
pub enum SOp {
    AppendSer(J),
    ExtendSer(Vec<J>),
    Flush,
}

#[derive(Clone, Debug, Serialize, Deserialize, PartialEq)]
pub enum Finish {
    IntoInner,
    Drop,
}

#[derive(Clone, Debug, Serialize, Deserialize)]
pub struct ContainerCfg {
    pub codec: CodecSpec,
    pub block_size: usize,
    pub meta: Option<(String, Vec<u8>)>,
    pub marker: [u8; 16],
    pub finish: Finish,
}

#[derive(Clone, Debug, Serialize, Deserialize)]
pub enum Path {
    /// `bare`: record values are handed over without their `Value::Union` wrapper (the library then
    /// looks for a union variant that takes the record)
    Datum { schema: RS, values: Vec<RV>, validate: bool, #[serde(default)] bare: bool },
    /// `perm` != 0: the record schema lists its fields in another order than the Rust type serializes them
    DatumSer { type_id: String, values: Vec<J>, target_block_size: Option<usize>, #[serde(default)] perm: u64 },
    AvroDatumRef { type_id: String, values: Vec<J>, #[serde(default)] perm: u64 },
    Container { schema: RS, cfg: ContainerCfg, ops: Vec<COp> },
    ContainerSer { type_id: String, cfg: ContainerCfg, ops: Vec<SOp> },
    GenericSingle { schema: RS, values: Vec<RV>, cap: usize },
    SpecificSingle { type_id: String, values: Vec<J>, method: u8, target_block_size: Option<usize>, #[serde(default)] perm: u64 },
}

impl Path {
    fn kind(&self) -> &'static str {
        match self {
            Path::Datum { .. } => "datum",
            Path::DatumSer { .. } => "datum_ser",
            Path::AvroDatumRef { .. } => "write_avro_datum_ref",
            Path::Container { .. } => "container",
            Path::ContainerSer { .. } => "container_ser",
            Path::GenericSingle { .. } => "generic_single",
            Path::SpecificSingle { .. } => "specific_single",
        }
    }
    fn is_container(&self) -> bool {
        matches!(self, Path::Container { .. } | Path::ContainerSer { .. })
    }
}

#[derive(Clone, Debug, Serialize, Deserialize)]
pub struct Case {
    pub path: Path,
    /// when set, execute only this sink plan (replay / shrinking); otherwise enumerate
    pub only: Option<SinkPlan>,
    /// when set, execute only this plan in continuation mode
    #[serde(default)]
    pub cont_only: Option<SinkPlan>,
}

#[derive(Clone, Debug)]
struct Api {
    name: &'static str,
    ok: bool,
    count: Option<usize>,
    doc_count: bool,
    cum: usize,
    /// bytes accepted by the sink during this call
    delta: usize,
    fault_during: bool,
}

#[derive(Debug)]
struct Exec {
    apis: Vec<Api>,
    data: Vec<u8>,
    write_calls: u64,
    flush_calls: u64,
    faults: Vec<WriteFaultKind>,
    short_accepts: u64,
    dropped_remainders: u64,
    panic: Option<String>,
    setup_err: Option<String>,
}

struct Rec<'a> {
    apis: &'a mut Vec<Api>,
}

impl Rec<'_> {
    fn push(
        &mut self,
        name: &'static str,
        res: Result<usize, String>,
        doc_count: bool,
        before: (usize, usize),
        after: (usize, usize),
    ) -> bool {
        let ok = res.is_ok();
        self.apis.push(Api {
            name,
            ok,
            count: res.ok(),
            doc_count,
            cum: after.0,
            delta: after.0 - before.0,
            fault_during: after.1 > before.1,
        });
        ok
    }
}

thread_local! {
    /// continuation mode: a container scenario goes on after an API call returned Err and always
    /// finishes with into_inner (used by the clean-refusal / flush-error continuation oracle)
    static CONT: std::cell::Cell<bool> = const { std::cell::Cell::new(false) };
}

fn cont() -> bool {
    CONT.with(|c| c.get())
}

fn exec_cont(path: &Path, plan: &SinkPlan) -> Exec {
    CONT.with(|c| c.set(true));
    let e = exec(path, plan);
    CONT.with(|c| c.set(false));
    e
}

/// Record values without their `Value::Union` wrapper, at any depth.
fn strip_record_unions(v: apache_avro::types::Value) -> apache_avro::types::Value {
    use apache_avro::types::Value as V;
    match v {
        V::Union(i, inner) => match strip_record_unions(*inner) {
            r @ V::Record(_) => r,
            other => V::Union(i, Box::new(other)),
        },
        V::Record(fs) => V::Record(fs.into_iter().map(|(n, x)| (n, strip_record_unions(x))).collect()),
        V::Array(xs) => V::Array(xs.into_iter().map(strip_record_unions).collect()),
        V::Map(m) => V::Map(m.into_iter().map(|(k, x)| (k, strip_record_unions(x))).collect()),
        other => other,
    }
}

fn snap(s: &SimSink) -> (usize, usize) {
    (s.data.len(), s.faults_fired.len())
}

fn run_container_ops<'a>(
    w: &mut Writer<'a, &mut SimSink>,
    ops: &[COp],
    schema: &RS,
    defs: &crate::gen::Defs,
    rec: &mut Rec,
) -> bool {
    let mut all_ok = true;
    for op in ops {
        let before = snap(w.get_ref());
        let ok = match op {
            COp::AppendValueRef(v) => {
                let v = to_avro(v, schema, defs);
                let r = w.append_value_ref(&v).map_err(|e| e.to_string());
                let after = snap(w.get_ref());
                rec.push("append_value_ref", r, true, before, after)
            }
            COp::AppendValue(v) => {
                let v = to_avro(v, schema, defs);
                let r = w.append_value(v).map_err(|e| e.to_string());
                let after = snap(w.get_ref());
                rec.push("append_value", r, true, before, after)
            }
            COp::Unvalidated(v) => {
                let v = to_avro(v, schema, defs);
                let r = w.unvalidated_append_value_ref(&v).map_err(|e| e.to_string());
                let after = snap(w.get_ref());
                rec.push("unvalidated_append_value_ref", r, true, before, after)
            }
            COp::ExtendFromSlice(vs) => {
                let vs: Vec<_> = vs.iter().map(|v| to_avro(v, schema, defs)).collect();
                let r = w.extend_from_slice(&vs).map_err(|e| e.to_string());
                let after = snap(w.get_ref());
                rec.push("extend_from_slice", r, true, before, after)
            }
            COp::Extend(vs) => {
                let vs: Vec<_> = vs.iter().map(|v| to_avro(v, schema, defs)).collect();
                let r = w.extend(vs).map_err(|e| e.to_string());
                let after = snap(w.get_ref());
                rec.push("extend", r, true, before, after)
            }
            COp::Flush => {
                let r = w.flush().map_err(|e| e.to_string());
                let after = snap(w.get_ref());
                rec.push("flush", r, true, before, after)
            }
        };
        if !ok {
            if !cont() {
                return false;
            }
            all_ok = false;
        }
    }
    all_ok
}

fn build_writer<'a>(
    schema: &'a apache_avro::Schema,
    sink: &'a mut SimSink,
    cfg: &ContainerCfg,
) -> Result<Writer<'a, &'a mut SimSink>, String> {
    let mut w = Writer::builder()
        .schema(schema)
        .writer(sink)
        .codec(cfg.codec.to_lib())
        .block_size(cfg.block_size)
        .marker(cfg.marker)
        .build()
        .map_err(|e| e.to_string())?;
    if let Some((k, v)) = &cfg.meta {
        w.add_user_metadata(k.clone(), v).map_err(|e| e.to_string())?;
    }
    Ok(w)
}

fn finish_writer(w: Writer<'_, &mut SimSink>, finish: &Finish, apis: &mut Vec<Api>, all_ok: bool) {
    // after an error the writer is only dropped (must not panic; nothing else is required)
    let before = snap(w.get_ref());
    if (*finish == Finish::IntoInner && all_ok) || cont() {
        match w.into_inner() {
            Ok(s) => {
                let after = snap(s);
                apis.push(Api {
                    name: "into_inner",
                    ok: true,
                    count: None,
                    doc_count: false,
                    cum: after.0,
                    delta: after.0 - before.0,
                    fault_during: after.1 > before.1,
                });
            }
            Err(_) => {
                apis.push(Api {
                    name: "into_inner",
                    ok: false,
                    count: None,
                    doc_count: false,
                    cum: before.0,
                    delta: 0,
                    fault_during: true,
                });
            }
        }
    } else {
        // Drop cannot report an error: a fault firing during drop is treated as a reported error.
        drop(w);
    }
}

fn exec(path: &Path, plan: &SinkPlan) -> Exec {
    let mut sink = SimSink::new(plan.clone());
    sink.log_calls = false;
    let mut apis: Vec<Api> = vec![];
    let mut setup_err = None;
    let r = guarded(|| {
        let mut rec = Rec { apis: &mut apis };
        match path {
            Path::Datum { schema, values, validate, bare } => {
                let Some(p) = parse_rs(schema) else {
                    setup_err = Some("schema rejected".to_string());
                    return;
                };
                let w = match GenericDatumWriter::builder(&p.schema).validate(*validate).build() {
                    Ok(w) => w,
                    Err(e) => {
                        setup_err = Some(e.to_string());
                        return;
                    }
                };
                for v in values {
                    let mut v = to_avro(v, schema, &p.defs);
                    if *bare {
                        v = strip_record_unions(v);
                    }
                    let before = snap(&sink);
                    let r = w.write_value_ref(&mut sink, &v).map_err(|e| e.to_string());
                    let after = snap(&sink);
                    if !rec.push("datum.write_value_ref", r, false, before, after) {
                        break;
                    }
                }
            }
            Path::DatumSer { type_id, values, target_block_size, perm } => {
                with_corpus!(type_id.as_str(), T => {
                    let schema = corpus::permuted_schema(&T::get_schema(), *perm);
                    let w = GenericDatumWriter::builder(&schema).maybe_target_block_size(*target_block_size).build().unwrap();
                    for v in values {
                        let t: T = serde_json::from_value(v.clone()).expect("corpus value");
                        let before = snap(&sink);
                        let r = w.write_ser(&mut sink, &t).map_err(|e| e.to_string());
                        let after = snap(&sink);
                        if !rec.push("datum.write_ser", r, false, before, after) {
                            break;
                        }
                    }
                })
            }
            Path::AvroDatumRef { type_id, values, perm } => {
                with_corpus!(type_id.as_str(), T => {
                    let schema = corpus::permuted_schema(&T::get_schema(), *perm);
                    let rs = ResolvedSchema::try_from(&schema).unwrap();
                    for v in values {
                        let t: T = serde_json::from_value(v.clone()).expect("corpus value");
                        let before = snap(&sink);
                        let r = write_avro_datum_ref(&schema, rs.get_names(), &t, &mut sink).map_err(|e| e.to_string());
                        let after = snap(&sink);
                        if !rec.push("write_avro_datum_ref", r, true, before, after) {
                            break;
                        }
                    }
                })
            }
            Path::Container { schema, cfg, ops } => {
                let Some(p) = parse_rs(schema) else {
                    setup_err = Some("schema rejected".to_string());
                    return;
                };
                let mut w = match build_writer(&p.schema, &mut sink, cfg) {
                    Ok(w) => w,
                    Err(e) => {
                        setup_err = Some(e);
                        return;
                    }
                };
                let ok = run_container_ops(&mut w, ops, schema, &p.defs, &mut rec);
                finish_writer(w, &cfg.finish, rec.apis, ok);
            }
            Path::ContainerSer { type_id, cfg, ops } => {
                with_corpus!(type_id.as_str(), T => {
                    let schema = T::get_schema();
                    let mut w = match build_writer(&schema, &mut sink, cfg) {
                        Ok(w) => w,
                        Err(e) => {
                            setup_err = Some(e);
                            return;
                        }
                    };
                    let mut ok = true;
                    for op in ops {
                        let before = snap(w.get_ref());
                        ok = match op {
                            SOp::AppendSer(v) => {
                                let t: T = serde_json::from_value(v.clone()).expect("corpus value");
                                let r = w.append_ser(&t).map_err(|e| e.to_string());
                                let after = snap(w.get_ref());
                                rec.push("append_ser", r, true, before, after)
                            }
                            SOp::ExtendSer(vs) => {
                                let ts: Vec<T> = vs.iter().map(|v| serde_json::from_value(v.clone()).expect("corpus value")).collect();
                                let r = w.extend_ser(ts.iter()).map_err(|e| e.to_string());
                                let after = snap(w.get_ref());
                                rec.push("extend_ser", r, true, before, after)
                            }
                            SOp::Flush => {
                                let r = w.flush().map_err(|e| e.to_string());
                                let after = snap(w.get_ref());
                                rec.push("flush", r, true, before, after)
                            }
                        };
                        if !ok && !cont() {
                            break;
                        }
                    }
                    finish_writer(w, &cfg.finish, rec.apis, ok);
                })
            }
            Path::GenericSingle { schema, values, cap } => {
                let Some(p) = parse_rs(schema) else {
                    setup_err = Some("schema rejected".to_string());
                    return;
                };
                let mut w = match GenericSingleObjectWriter::new_with_capacity(&p.schema, *cap) {
                    Ok(w) => w,
                    Err(e) => {
                        setup_err = Some(e.to_string());
                        return;
                    }
                };
                for v in values {
                    let v = to_avro(v, schema, &p.defs);
                    let before = snap(&sink);
                    let r = w.write_value_ref(&v, &mut sink).map_err(|e| e.to_string());
                    let after = snap(&sink);
                    if !rec.push("generic_single.write_value_ref", r, true, before, after) {
                        break;
                    }
                }
            }
            Path::SpecificSingle { type_id, values, method, target_block_size, perm } => {
                with_corpus!(type_id.as_str(), T => {
                    let w = if *perm != 0 && *method < 2 {
                        SpecificSingleObjectWriter::<T>::builder().resolved(corpus::permuted_schema(&T::get_schema(), *perm)).unwrap().maybe_target_block_size(*target_block_size).build()
                    } else {
                        SpecificSingleObjectWriter::<T>::builder().maybe_target_block_size(*target_block_size).build()
                    };
                    for v in values {
                        let t: T = serde_json::from_value(v.clone()).expect("corpus value");
                        let before = snap(&sink);
                        let (name, r) = match method {
                            0 => ("specific_single.write_ref", w.write_ref(&t, &mut sink)),
                            1 => ("specific_single.write", w.write(t, &mut sink)),
                            _ => ("specific_single.write_value", w.write_value(t, &mut sink)),
                        };
                        let after = snap(&sink);
                        if !rec.push(name, r.map_err(|e| e.to_string()), true, before, after) {
                            break;
                        }
                    }
                })
            }
        }
    });
    Exec {
        apis,
        write_calls: sink.write_calls,
        flush_calls: sink.flush_calls,
        faults: sink.faults_fired.clone(),
        short_accepts: sink.short_accepts,
        dropped_remainders: sink.dropped_remainders,
        data: std::mem::take(&mut sink.data),
        panic: r.err(),
        setup_err,
    }
}

/// Compare two byte streams; container streams are compared after canonicalising the header's
/// metadata order (the library encodes the header map in hash-iteration order).
fn same_stream(a: &[u8], b: &[u8], container: bool) -> bool {
    if !container {
        return a == b;
    }
    match (refimpl::parse_header(a), refimpl::parse_header(b)) {
        (Some(x), Some(y)) => x.canonical_header() == y.canonical_header() && a[x.header_end..] == b[y.header_end..],
        (None, None) => a.len() == b.len() && (a.len() < 4 || a[..4] == b[..4]),
        _ => false,
    }
}

fn plan_name(p: &SinkPlan) -> String {
    let a = match &p.accept {
        Accept::All => "all".to_string(),
        Accept::Const(k) => format!("const{k}"),
        Accept::AllButLast => "all_but_last".to_string(),
        Accept::Cuts(_) => "cuts".to_string(),
        Accept::Hashed { .. } => "hashed".to_string(),
    };
    match &p.fault {
        None => a,
        Some(f) => format!("{a}+{:?}", f.kind),
    }
}

fn judge(path: &Path, reference: &Exec, e: &Exec, plan: &SinkPlan) -> Option<Failure> {
    let kind = path.kind();
    let pn = plan_name(plan);
    if let Some(p) = &e.panic {
        return Some(Failure::new(
            "panic",
            format!("C13 panic path={kind}"),
            format!("panic under plan {pn}: {p}"),
        ));
    }
    // walk API calls while they return Ok
    for (i, a) in e.apis.iter().enumerate() {
        if !a.ok {
            return None; // an error was reported to the caller: acceptable
        }
        if a.fault_during && a.name != "into_inner" {
            // the call returned Ok although the sink reported an error during it: only legitimate
            // for Interrupted (retried) - completeness is checked below either way
        }
        let r = reference.apis.get(i)?;
        if !r.ok {
            // reference failed here but faulty run succeeded: scenario is not a valid baseline
            return None;
        }
        if a.cum != r.cum {
            return Some(Failure::new(
                "silent-loss",
                format!("C13 silent-loss path={kind} api={}", a.name),
                format!(
                    "call #{i} {} returned Ok but the sink holds {} bytes where a Vec sink holds {} (plan {pn}, short accepts {}, remainders not re-offered {})",
                    a.name, a.cum, r.cum, e.short_accepts, e.dropped_remainders
                ),
            ));
        }
        if a.doc_count {
            if let Some(n) = a.count {
                if n != a.delta {
                    return Some(Failure::new(
                        "wrong-count",
                        format!("C13 wrong-count path={kind} api={}", a.name),
                        format!(
                            "call #{i} {} returned Ok({n}) but the sink accepted {} bytes during the call (plan {pn})",
                            a.name, a.delta
                        ),
                    ));
                }
            }
        }
    }
    // every API call returned Ok
    if e.apis.len() == reference.apis.len() {
        // a writer dropped (not consumed) cannot report: a fault during the drop is excused
        let dropped_with_fault = matches!(path, Path::Container { cfg, .. } | Path::ContainerSer { cfg, .. } if cfg.finish == Finish::Drop)
            && !e.faults.is_empty()
            && e.faults.iter().any(|f| *f != WriteFaultKind::Interrupted);
        if !dropped_with_fault && !same_stream(&e.data, &reference.data, path.is_container()) {
            return Some(Failure::new(
                "silent-loss",
                format!("C13 silent-loss path={kind} api=end"),
                format!(
                    "all calls returned Ok but the sink holds {} bytes differing from the {} bytes a Vec sink holds (plan {pn}, short accepts {}, remainders not re-offered {})",
                    e.data.len(),
                    reference.data.len(),
                    e.short_accepts,
                    e.dropped_remainders
                ),
            ));
        }
    }
    None
}

/// Values a container scenario attempts to append, in order, one group per operation.
fn attempted(path: &Path) -> Option<(apache_avro::Schema, Vec<Vec<apache_avro::types::Value>>)> {
    match path {
        Path::Container { schema, ops, .. } => {
            let p = parse_rs(schema)?;
            let groups = ops
                .iter()
                .map(|op| match op {
                    COp::AppendValueRef(v) | COp::AppendValue(v) | COp::Unvalidated(v) => vec![to_avro(v, schema, &p.defs)],
                    COp::ExtendFromSlice(vs) | COp::Extend(vs) => vs.iter().map(|v| to_avro(v, schema, &p.defs)).collect(),
                    COp::Flush => vec![],
                })
                .collect();
            Some((p.schema, groups))
        }
        Path::ContainerSer { type_id, ops, .. } => {
            with_corpus!(type_id.as_str(), T => {
                let conv = |v: &J| -> apache_avro::types::Value { serde_json::from_value::<T>(v.clone()).expect("corpus value").to_value() };
                let groups = ops
                    .iter()
                    .map(|op| match op {
                        SOp::AppendSer(v) => vec![conv(v)],
                        SOp::ExtendSer(vs) => vs.iter().map(conv).collect(),
                        SOp::Flush => vec![],
                    })
                    .collect();
                Some((T::get_schema(), groups))
            })
        }
        _ => None,
    }
}

/// Is `l` obtainable from `a` by deleting only optional elements? (tiny inputs: plain recursion)
fn embeds(a: &[(apache_avro::types::Value, bool)], l: &[apache_avro::types::Value]) -> bool {
    match (a.split_first(), l.split_first()) {
        (None, None) => true,
        (None, Some(_)) => false,
        (Some(((v, mandatory), rest)), _) => {
            if let Some((x, lrest)) = l.split_first() {
                if crate::gen::avro_eq(v, x) && embeds(rest, lrest) {
                    return true;
                }
            }
            !*mandatory && embeds(rest, l)
        }
    }
}

/// Continuation oracle (container writers). The plan injects one fault that leaves the sink's
/// byte stream intact: a flush() error, or a write error on the first sink call of an API call
/// (nothing of that call was accepted). The caller carries on with the rest of the scenario. If
/// every later call, including the final into_inner, returns Ok, the sink must hold a well-formed
/// file with the intended header whose values are the attempted ones in order: each at most once,
/// every value whose operation returned Ok present.
fn judge_continuation(path: &Path, reference: &Exec, e: &Exec, plan: &SinkPlan) -> Option<Failure> {
    let kind = path.kind();
    let pn = plan_name(plan);
    if let Some(p) = &e.panic {
        return Some(Failure::new("panic", format!("C13 panic path={kind}"), format!("panic when continuing after a reported error under plan {pn}: {p}")));
    }
    if e.faults.len() != 1 {
        return None;
    }
    let failed = e.apis.iter().position(|a| !a.ok)?;
    let clean = match e.faults[0] {
        WriteFaultKind::FlushErr => true,
        WriteFaultKind::Other => e.apis[failed].delta == 0,
        _ => false,
    };
    if !matches!(e.faults[0], WriteFaultKind::FlushErr | WriteFaultKind::Other)
        || e.apis[failed + 1..].iter().any(|a| !a.ok)
        || e.apis.last().map(|a| (a.name, a.ok)) != Some(("into_inner", true))
    {
        return None;
    }
    let api = e.apis[failed].name;
    let fail = |what: &str, detail: String| {
        Some(Failure::new(
            "corrupt-after-reported-error",
            format!("C13 corrupt-after-reported-error path={kind} what={what} fault={:?}{}", e.faults[0], if clean { "" } else { " torn" }),
            format!(
                "call #{failed} {api} reported the sink's error ({}: {:?}); every later call returned Ok, but {detail} (plan {pn})",
                if clean { "the sink's byte stream stayed intact" } else { "part of that call's bytes had been accepted; that torn piece is set aside" },
                e.faults[0]
            ),
        ))
    };
    let (schema, groups) = attempted(path)?;
    // What the file should look like to a reader: for a clean refusal the sink's bytes as they are;
    // otherwise the complete blocks delivered up to the failed call, then what was delivered after it
    // (the torn piece in between - accepted bytes of an incomplete header or block - is set aside: the
    // caller knows from the error that it has to be discarded).
    let cut = e.apis[failed].cum.min(e.data.len());
    let file: Vec<u8> = if clean {
        e.data.clone()
    } else {
        let (head, tail) = e.data.split_at(cut);
        match refimpl::parse_file(head) {
            Some(l) => {
                let keep = head.len() - l.trailing;
                let mut f = head[..keep].to_vec();
                f.extend_from_slice(tail);
                f
            }
            // the header itself was torn: everything has to come again
            None => tail.to_vec(),
        }
    };
    let Some(layout) = refimpl::parse_file(&file) else {
        return fail("malformed-file", format!("the {} bytes delivered are not a well-formed container file", file.len()));
    };
    if layout.trailing != 0 || layout.blocks.iter().any(|b| !b.marker_ok) {
        return fail("malformed-file", "what was delivered has trailing bytes or a block with a wrong marker".to_string());
    }
    match (refimpl::parse_header(&file), refimpl::parse_header(&reference.data)) {
        (Some(x), Some(y)) if x.canonical_header() == y.canonical_header() => {}
        _ => return fail("wrong-header", "the header differs from the one a Vec sink receives".to_string()),
    }
    let mut got = vec![];
    match apache_avro::Reader::builder(&file[..]).reader_schema(&schema).build() {
        Err(err) => return fail("unreadable", format!("the file cannot be opened: {err}")),
        Ok(rd) => {
            for item in rd {
                match item {
                    Ok(v) => got.push(v),
                    Err(err) => return fail("unreadable", format!("reading the file fails after {} value(s): {err}", got.len())),
                }
            }
        }
    }
    let mut a = vec![];
    for (i, g) in groups.iter().enumerate() {
        let ok = e.apis.get(i).map(|x| x.ok).unwrap_or(false);
        for v in g {
            a.push((v.clone(), ok));
        }
    }
    if !embeds(&a, &got) {
        let mand = a.iter().filter(|x| x.1).count();
        return fail(
            "values",
            format!("the file holds {} value(s) that are not the {} attempted ones in order with the {mand} acknowledged ones present (lost, duplicated or altered)", got.len(), a.len()),
        );
    }
    None
}

fn continuation_plans(reference: &Exec) -> Vec<SinkPlan> {
    let mut plans = vec![];
    for j in 0..reference.write_calls.min(64) {
        plans.push(SinkPlan { accept: Accept::All, fault: Some(WriteFault { kind: WriteFaultKind::Other, at: j }) });
    }
    for j in 0..reference.write_calls.min(24) {
        // errors in the middle of a piece (3 bytes per call)
        plans.push(SinkPlan { accept: Accept::Const(3), fault: Some(WriteFault { kind: WriteFaultKind::Other, at: j * 3 + 1 }) });
    }
    for j in 0..reference.flush_calls.min(16) {
        plans.push(SinkPlan { accept: Accept::All, fault: Some(WriteFault { kind: WriteFaultKind::FlushErr, at: j }) });
    }
    plans
}

fn plans_for(reference: &Exec, path: &Path) -> Vec<SinkPlan> {
    let mut plans = vec![];
    let salt = reference.data.len() as u64 * 31 + reference.write_calls;
    let policies = [
        Accept::Const(1),
        Accept::Const(2),
        Accept::Const(7),
        Accept::AllButLast,
        Accept::Hashed { salt, max: 9 },
        Accept::Cuts((1..40).map(|i| i * 13).collect()),
    ];
    for a in &policies {
        plans.push(SinkPlan { accept: a.clone(), fault: None });
    }
    let n = reference.write_calls.min(96);
    for j in 0..n {
        for kind in [WriteFaultKind::Other, WriteFaultKind::Interrupted, WriteFaultKind::WriteZero, WriteFaultKind::ZeroAccept] {
            plans.push(SinkPlan { accept: Accept::All, fault: Some(WriteFault { kind, at: j }) });
        }
        plans.push(SinkPlan { accept: Accept::Const(3), fault: Some(WriteFault { kind: WriteFaultKind::Interrupted, at: j * 2 + 1 }) });
        plans.push(SinkPlan { accept: Accept::Const(3), fault: Some(WriteFault { kind: WriteFaultKind::Other, at: j * 2 }) });
    }
    for j in 0..reference.flush_calls.min(16) {
        plans.push(SinkPlan { accept: Accept::All, fault: Some(WriteFault { kind: WriteFaultKind::FlushErr, at: j }) });
    }
    let len = reference.data.len() as u64;
    let mut offs = vec![0, 1, len / 3, len / 2, len.saturating_sub(17), len.saturating_sub(1)];
    if path.is_container() {
        if let Some(h) = refimpl::parse_header(&reference.data) {
            offs.push(h.header_end as u64);
            offs.push(h.header_end as u64 + 1);
        }
    }
    offs.sort();
    offs.dedup();
    for o in offs {
        if o < len {
            plans.push(SinkPlan { accept: Accept::Const(5), fault: Some(WriteFault { kind: WriteFaultKind::DiskFull, at: o }) });
        }
    }
    plans
}

pub struct C13;

fn gen_values(rng: &mut Rng, rs: &RS, defs: &crate::gen::Defs, n: usize) -> Vec<RV> {
    let mut vg = ValueGen::new(defs);
    vg.max_map = 1;
    vg.max_blob = 120;
    (0..n).map(|_| vg.gen(rng, rs, 0)).collect()
}

fn gen_cfg(rng: &mut Rng, approx_value: usize) -> ContainerCfg {
    ContainerCfg {
        codec: CodecSpec::gen(rng, false),
        block_size: *rng.pick(&[0usize, 1, approx_value.max(1), approx_value * 3 + 1, 16000]),
        meta: if rng.chance(1, 3) {
            let n = rng.usize_below(6);
            Some((format!("user.k{}", rng.below(9)), rng.bytes(n)))
        } else {
            None
        },
        marker: marker_from(rng),
        finish: if rng.chance(2, 3) { Finish::IntoInner } else { Finish::Drop },
    }
}

impl Property for C13 {
    type Case = Case;
    fn id(&self) -> &'static str {
        "C13"
    }
    fn level(&self) -> &'static str {
        "fault_enumeration"
    }
    fn rule(&self) -> String {
        "Seeds sample write scenarios (7 write paths x schema/values or serde corpus type x codec/block size/metadata/finish). \
         Per scenario the fault space is enumerated: 6 accept policies without error, and a single fault \
         (Other, Interrupted, WriteZero, Ok(0)) at EVERY write-call index under two accept policies, a flush error at every \
         flush index, and disk-full at 6-8 byte offsets; serde scenarios also with the record schema's fields in another order than \
         the Rust type, datum scenarios also with bare record values for unions of same-shaped records. Container scenarios are run \
         once more in continuation mode: one write error at every call index (under two accept policies) or one flush error, the \
         caller carries on and finishes with into_inner; if every later call returns Ok, what was delivered (the torn piece of the \
         failed call set aside) must be a well-formed file holding the attempted values in order, each at most once, every \
         acknowledged one present. One evaluation = one execution under one sink plan, judged against the \
         same scenario on a perfect sink. distinct_nontrivial counts distinct (write path, API that was in flight, accept policy, \
         fault kind, outcome) tuples in which the plan actually changed the sink's behaviour (a short accept or a fault fired)."
            .into()
    }
    fn assumptions(&self) -> Vec<String> {
        vec![
            "the sink obeys the std::io::Write contract; Ok(0) for a non-empty buffer is treated as legal".into(),
            "a fault that fires while a Writer is being dropped is excused (Drop cannot report)".into(),
            "maps in values and user metadata have at most one entry so that call indices do not depend on hash order".into(),
            "GenericDatumWriter's returned usize is undocumented and not judged".into(),
        ]
    }
    fn components(&self) -> J {
        json!({"real": ["apache_avro writers (datum, container, single-object, serde serializer)", "codec crates"],
               "simulated": ["SimSink (accept policy, injected errors)"],
               "reference": ["same scenario on a perfect SimSink", "refimpl header parser for metadata-order canonicalisation"]})
    }
    fn runs(&self, tier: Tier) -> u64 {
        match tier {
            Tier::Quick => 12_000,
            Tier::Thorough => 1_500_000,
        }
    }
    fn required_probes(&self) -> Vec<&'static str> {
        vec!["probe.short_accept_fired", "probe.fault_fired_during_flush_api", "probe.error_during_drop", "probe.size_threshold_flush", "probe.continued_after_reported_error_to_a_clean_finish"]
    }

    fn generate(&self, rng: &mut Rng, _run: u64, _tier: Tier) -> Option<Case> {
        let mut wr = rng.fork("workload");
        let which = wr.below(12);
        let path = match which {
            0..=1 => {
                let gs = gen_schema(&mut wr, 3, true);
                let n = wr.range(1, 3) as usize;
                if wr.chance(1, 4) {
                    // a union of same-shaped records, values handed over as bare records
                    let rec = |name: &str| RS::Record { full: name.to_string(), style: crate::gen::NameStyle::Inherit, fields: vec![("id".into(), RS::Long), ("by".into(), RS::String)] };
                    let u = RS::Union(vec![rec("Created"), rec("Deleted"), RS::Null]);
                    let schema = if wr.chance(1, 2) { u } else { RS::Record { full: "Event".into(), style: crate::gen::NameStyle::Inherit, fields: vec![("seq".into(), RS::Int), ("what".into(), u)] } };
                    let defs = crate::gen::defs_of(&schema);
                    Path::Datum { values: gen_values(&mut wr, &schema, &defs, n), schema, validate: wr.chance(1, 2), bare: true }
                } else {
                    Path::Datum { values: gen_values(&mut wr, &gs.root, &gs.defs, n), schema: gs.root, validate: wr.chance(1, 2), bare: wr.chance(1, 4) }
                }
            }
            2 => {
                let id = *wr.pick(&corpus::IDS);
                let n = wr.range(1, 2) as usize;
                let values = with_corpus!(id, T => (0..n).map(|_| serde_json::to_value(T::gen(&mut wr)).unwrap()).collect());
                Path::DatumSer { type_id: id.into(), values, target_block_size: *wr.pick(&[None, Some(1), Some(64)]), perm: if wr.chance(1, 2) { 0 } else { wr.next_u64() | 1 } }
            }
            3 => {
                let id = *wr.pick(&corpus::IDS);
                let n = wr.range(1, 2) as usize;
                let values = with_corpus!(id, T => (0..n).map(|_| serde_json::to_value(T::gen(&mut wr)).unwrap()).collect());
                Path::AvroDatumRef { type_id: id.into(), values, perm: if wr.chance(1, 2) { 0 } else { wr.next_u64() | 1 } }
            }
            4..=6 => {
                let gs = gen_schema(&mut wr, 3, true);
                let sample = gen_values(&mut wr, &gs.root, &gs.defs, 1);
                let approx = refimpl::encode_vec(&sample[0], &gs.root, &gs.defs).len();
                let cfg = gen_cfg(&mut wr, approx);
                let nops = wr.range(1, 6) as usize;
                let mut ops = vec![];
                for _ in 0..nops {
                    let one = |wr: &mut Rng| gen_values(wr, &gs.root, &gs.defs, 1).pop().unwrap();
                    ops.push(match wr.below(9) {
                        0..=2 => COp::AppendValueRef(one(&mut wr)),
                        3 => COp::AppendValue(one(&mut wr)),
                        4 => COp::Unvalidated(one(&mut wr)),
                        5 => COp::ExtendFromSlice(gen_values(&mut wr, &gs.root, &gs.defs, 2)),
                        6 => COp::Extend(gen_values(&mut wr, &gs.root, &gs.defs, 2)),
                        _ => COp::Flush,
                    });
                }
                Path::Container { schema: gs.root, cfg, ops }
            }
            7..=8 => {
                let id = *wr.pick(&corpus::IDS);
                let cfg = gen_cfg(&mut wr, 12);
                let nops = wr.range(1, 5) as usize;
                let ops = with_corpus!(id, T => {
                    let mut ops = vec![];
                    for _ in 0..nops {
                        ops.push(match wr.below(5) {
                            0..=2 => SOp::AppendSer(serde_json::to_value(T::gen(&mut wr)).unwrap()),
                            3 => SOp::ExtendSer((0..2).map(|_| serde_json::to_value(T::gen(&mut wr)).unwrap()).collect()),
                            _ => SOp::Flush,
                        });
                    }
                    ops
                });
                Path::ContainerSer { type_id: id.into(), cfg, ops }
            }
            9 => {
                let gs = gen_schema(&mut wr, 3, true);
                let n = wr.range(1, 4) as usize;
                Path::GenericSingle {
                    values: gen_values(&mut wr, &gs.root, &gs.defs, n),
                    schema: gs.root,
                    cap: *wr.pick(&[0usize, 1, 64]),
                }
            }
            _ => {
                let id = *wr.pick(&corpus::IDS);
                let n = wr.range(1, 3) as usize;
                let values = with_corpus!(id, T => (0..n).map(|_| serde_json::to_value(T::gen(&mut wr)).unwrap()).collect());
                Path::SpecificSingle {
                    type_id: id.into(),
                    values,
                    method: wr.below(3) as u8,
                    target_block_size: *wr.pick(&[None, Some(1), Some(64)]),
                    perm: if wr.chance(1, 2) { 0 } else { wr.next_u64() | 1 },
                }
            }
        };
        // the library must accept the generated schema
        match &path {
            Path::Datum { schema, .. } | Path::Container { schema, .. } | Path::GenericSingle { schema, .. } => {
                parse_rs(schema)?;
            }
            _ => {}
        }
        Some(Case { path, only: None, cont_only: None })
    }

    fn execute(&self, case: &Case, ctx: &mut Ctx) -> Option<Failure> {
        let path = &case.path;
        let kind = path.kind();
        let reference = exec(path, &SinkPlan::perfect());
        ctx.eval();
        ctx.steps(reference.write_calls + reference.flush_calls);
        ctx.ev(kind);
        ctx.ev_u(reference.data.len() as u64);
        ctx.ev_u(reference.write_calls);
        if let Some(e) = &reference.setup_err {
            ctx.agg.count("scenario.setup_rejected");
            ctx.ev(e);
            return None;
        }
        if let Some(p) = &reference.panic {
            return Some(Failure::new("panic", format!("C13 panic path={kind}"), format!("panic on a perfect sink: {p}")));
        }
        // documented counts must hold on the perfect sink too
        if let Some(f) = judge(path, &reference, &reference, &SinkPlan::perfect()) {
            return Some(f);
        }
        if reference.apis.iter().any(|a| !a.ok) {
            // a scenario whose reference run reports an error is not a baseline for completeness
            ctx.agg.count("scenario.reference_errored");
            return None;
        }
        if path.is_container() && reference.apis.iter().any(|a| a.name != "flush" && a.name != "into_inner" && !a.name.starts_with("extend") && a.delta > 0 && a.cum > a.delta) {
            ctx.agg.count("probe.size_threshold_flush");
        }
        let plans = match &case.only {
            Some(p) => vec![p.clone()],
            None => plans_for(&reference, path),
        };
        let mut first: Option<(Failure, SinkPlan)> = None;
        for plan in &plans {
            let e = exec(path, plan);
            ctx.eval();
            ctx.steps(e.write_calls + e.flush_calls);
            let fired = !e.faults.is_empty();
            let changed = fired || e.short_accepts > 0;
            for f in &e.faults {
                ctx.agg.count(&format!("fault.{f:?}"));
            }
            if e.short_accepts > 0 {
                ctx.agg.add("fault.short_accept", e.short_accepts);
                ctx.agg.count("probe.short_accept_fired");
            }
            let in_flight = e.apis.iter().find(|a| a.fault_during || !a.ok).map(|a| a.name).unwrap_or("none");
            let all_ok = e.apis.iter().all(|a| a.ok);
            if fired && in_flight == "flush" {
                ctx.agg.count("probe.fault_fired_during_flush_api");
            }
            if fired && all_ok && e.apis.len() == reference.apis.len() && !e.apis.iter().any(|a| a.fault_during) {
                ctx.agg.count("probe.error_during_drop");
            }
            let verdict = judge(path, &reference, &e, plan);
            let outcome = match (&verdict, all_ok) {
                (Some(f), _) => f.class.clone(),
                (None, true) => "delivered".to_string(),
                (None, false) => "error_reported".to_string(),
            };
            ctx.ev(&outcome);
            ctx.ev_u(e.data.len() as u64);
            if changed {
                ctx.agg.state(format!("{kind}|{in_flight}|{}|{outcome}", plan_name(plan)));
            }
            if let Some(f) = verdict {
                if first.is_none() {
                    first = Some((f, plan.clone()));
                }
            }
        }
        if first.is_none() && path.is_container() && case.only.is_none() || case.cont_only.is_some() {
            let plans = match &case.cont_only {
                Some(p) => vec![p.clone()],
                None => continuation_plans(&reference),
            };
            for plan in &plans {
                let e = exec_cont(path, plan);
                ctx.eval();
                ctx.steps(e.write_calls + e.flush_calls);
                let verdict = judge_continuation(path, &reference, &e, plan);
                let carried_on = e.faults.len() == 1 && e.apis.iter().any(|a| !a.ok) && e.apis.last().map(|a| a.ok && a.name == "into_inner").unwrap_or(false);
                if carried_on {
                    ctx.agg.count("probe.continued_after_reported_error_to_a_clean_finish");
                    ctx.agg.state(format!("{kind}|cont|{:?}|{}", e.faults[0], if verdict.is_some() { "corrupt" } else { "well-formed" }));
                }
                ctx.ev(if verdict.is_some() { "cont-bad" } else { "cont-ok" });
                if let Some(f) = verdict {
                    if first.is_none() {
                        first = Some((f, plan.clone()));
                    }
                }
            }
        }
        first.map(|(mut f, plan)| {
            f.detail = format!("{} [plan={}]", f.detail, serde_json::to_string(&plan).unwrap());
            f
        })
    }

    fn shrink(&self, case: &Case, failure: &Failure) -> Vec<Case> {
        let mut out = vec![];
        // 1. pin the failing plan
        if case.only.is_none() && case.cont_only.is_none() {
            if let Some(i) = failure.detail.rfind("[plan=") {
                let s = &failure.detail[i + 6..failure.detail.len() - 1];
                if let Ok(p) = serde_json::from_str::<SinkPlan>(s) {
                    if failure.class == "corrupt-after-reported-error" {
                        out.push(Case { path: case.path.clone(), only: Some(SinkPlan::perfect()), cont_only: Some(p) });
                    } else {
                        out.push(Case { path: case.path.clone(), only: Some(p), cont_only: None });
                    }
                }
            }
            return out;
        }
        if let Some(p) = &case.cont_only {
            if let Some(f) = &p.fault {
                if f.at > 0 {
                    for at in [0, f.at / 2, f.at - 1] {
                        out.push(Case { path: case.path.clone(), only: case.only.clone(), cont_only: Some(SinkPlan { accept: Accept::All, fault: Some(WriteFault { kind: f.kind, at }) }) });
                    }
                }
            }
        }
        // 2. simplify the plan
        if let (Some(p), None) = (&case.only, &case.cont_only) {
            if p.fault.is_some() && p.accept != Accept::All {
                out.push(Case { path: case.path.clone(), only: Some(SinkPlan { accept: Accept::All, fault: p.fault.clone() }), cont_only: None });
            }
            if p.fault.is_some() {
                out.push(Case { path: case.path.clone(), only: Some(SinkPlan { accept: p.accept.clone(), fault: None }), cont_only: None });
            }
            if !matches!(p.accept, Accept::Const(1) | Accept::All) {
                out.push(Case { path: case.path.clone(), only: Some(SinkPlan { accept: Accept::Const(1), fault: p.fault.clone() }), cont_only: None });
            }
            if let Some(f) = &p.fault {
                if f.at > 0 {
                    for at in [0, f.at / 2, f.at - 1] {
                        out.push(Case {
                            path: case.path.clone(),
                            only: Some(SinkPlan { accept: p.accept.clone(), fault: Some(WriteFault { kind: f.kind, at }) }),
                            cont_only: None,
                        });
                    }
                }
            }
        }
        // 3. drop operations / values
        let mut push = |path: Path| out.push(Case { path, only: case.only.clone(), cont_only: case.cont_only.clone() });
        match &case.path {
            Path::Datum { schema, values, validate, bare } => {
                for i in 0..values.len() {
                    if values.len() > 1 {
                        let mut v = values.clone();
                        v.remove(i);
                        push(Path::Datum { schema: schema.clone(), values: v, validate: *validate, bare: *bare });
                    }
                }
                for (s2, v2) in shrink_schema_values(schema, values) {
                    push(Path::Datum { schema: s2, values: v2, validate: *validate, bare: *bare });
                }
            }
            Path::DatumSer { type_id, values, target_block_size, perm } => {
                for i in 0..values.len() {
                    if values.len() > 1 {
                        let mut v = values.clone();
                        v.remove(i);
                        push(Path::DatumSer { type_id: type_id.clone(), values: v, target_block_size: *target_block_size, perm: *perm });
                    }
                }
            }
            Path::AvroDatumRef { type_id, values, perm } => {
                for i in 0..values.len() {
                    if values.len() > 1 {
                        let mut v = values.clone();
                        v.remove(i);
                        push(Path::AvroDatumRef { type_id: type_id.clone(), values: v, perm: *perm });
                    }
                }
            }
            Path::Container { schema, cfg, ops } => {
                for i in 0..ops.len() {
                    if ops.len() > 1 {
                        let mut o = ops.clone();
                        o.remove(i);
                        push(Path::Container { schema: schema.clone(), cfg: cfg.clone(), ops: o });
                    }
                }
                if cfg.codec != CodecSpec::Null {
                    let mut c = cfg.clone();
                    c.codec = CodecSpec::Null;
                    push(Path::Container { schema: schema.clone(), cfg: c, ops: ops.clone() });
                }
                if cfg.meta.is_some() {
                    let mut c = cfg.clone();
                    c.meta = None;
                    push(Path::Container { schema: schema.clone(), cfg: c, ops: ops.clone() });
                }
                if cfg.block_size != 16000 {
                    let mut c = cfg.clone();
                    c.block_size = 16000;
                    push(Path::Container { schema: schema.clone(), cfg: c, ops: ops.clone() });
                }
                // simplify schema: replace by the simplest schema with a matching value
                if *schema != RS::Long {
                    let ops2: Vec<COp> = ops
                        .iter()
                        .map(|o| match o {
                            COp::AppendValueRef(_) => COp::AppendValueRef(RV::Long(1)),
                            COp::AppendValue(_) => COp::AppendValue(RV::Long(1)),
                            COp::Unvalidated(_) => COp::Unvalidated(RV::Long(1)),
                            COp::ExtendFromSlice(v) => COp::ExtendFromSlice(v.iter().map(|_| RV::Long(1)).collect()),
                            COp::Extend(v) => COp::Extend(v.iter().map(|_| RV::Long(1)).collect()),
                            COp::Flush => COp::Flush,
                        })
                        .collect();
                    push(Path::Container { schema: RS::Long, cfg: cfg.clone(), ops: ops2 });
                }
            }
            Path::ContainerSer { type_id, cfg, ops } => {
                for i in 0..ops.len() {
                    if ops.len() > 1 {
                        let mut o = ops.clone();
                        o.remove(i);
                        push(Path::ContainerSer { type_id: type_id.clone(), cfg: cfg.clone(), ops: o });
                    }
                }
                if cfg.codec != CodecSpec::Null {
                    let mut c = cfg.clone();
                    c.codec = CodecSpec::Null;
                    push(Path::ContainerSer { type_id: type_id.clone(), cfg: c, ops: ops.clone() });
                }
            }
            Path::GenericSingle { schema, values, cap } => {
                for i in 0..values.len() {
                    if values.len() > 1 {
                        let mut v = values.clone();
                        v.remove(i);
                        push(Path::GenericSingle { schema: schema.clone(), values: v, cap: *cap });
                    }
                }
                for (s2, v2) in shrink_schema_values(schema, values) {
                    push(Path::GenericSingle { schema: s2, values: v2, cap: *cap });
                }
            }
            Path::SpecificSingle { type_id, values, method, target_block_size, perm } => {
                for i in 0..values.len() {
                    if values.len() > 1 {
                        let mut v = values.clone();
                        v.remove(i);
                        push(Path::SpecificSingle {
                            type_id: type_id.clone(),
                            values: v,
                            method: *method,
                            target_block_size: *target_block_size,
                            perm: *perm,
                        });
                    }
                }
            }
        }
        out
    }

    fn sample(&self, case: &Case) -> J {
        let p = &case.path;
        match p {
            Path::Container { schema, cfg, ops } => json!({
                "path": "container", "schema": crate::gen::to_json(schema), "codec": cfg.codec, "block_size": cfg.block_size,
                "finish": cfg.finish, "ops": ops.iter().map(|o| match o { COp::AppendValueRef(_) => "append_value_ref", COp::AppendValue(_) => "append_value", COp::Unvalidated(_) => "unvalidated_append", COp::ExtendFromSlice(_) => "extend_from_slice", COp::Extend(_) => "extend", COp::Flush => "flush" }).collect::<Vec<_>>(),
                "fault_space": "6 accept policies + one fault at every sink call index x {Other, Interrupted, WriteZero, Ok(0)} + flush errors + disk-full offsets"
            }),
            Path::Datum { schema, values, validate, bare } => json!({"path": "datum", "schema": crate::gen::to_json(schema), "values": values.len(), "validate": validate, "bare_records_for_unions": bare}),
            other => json!({"path": other.kind(), "case": serde_json::to_value(other).unwrap()}),
        }
    }
}

/// Structural shrinks of (schema, values): descend into a record field / array item / union branch.
pub fn shrink_schema_values(schema: &RS, values: &[RV]) -> Vec<(RS, Vec<RV>)> {
    let mut out = vec![];
    match schema {
        RS::Record { fields, .. } => {
            for (i, (_, t)) in fields.iter().enumerate() {
                if contains_ref(t) {
                    continue;
                }
                let vs: Option<Vec<RV>> = values
                    .iter()
                    .map(|v| match v {
                        RV::Record(fs) => fs.get(i).cloned(),
                        _ => None,
                    })
                    .collect();
                if let Some(vs) = vs {
                    out.push((t.clone(), vs));
                }
            }
        }
        RS::Array(t) if !contains_ref(t) => {
            let vs: Vec<RV> = values
                .iter()
                .filter_map(|v| match v {
                    RV::Array(xs) => xs.first().cloned(),
                    _ => None,
                })
                .collect();
            if !vs.is_empty() {
                out.push(((**t).clone(), vs));
            }
        }
        RS::Map(t) if !contains_ref(t) => {
            let vs: Vec<RV> = values
                .iter()
                .filter_map(|v| match v {
                    RV::Map(xs) => xs.first().map(|(_, v)| v.clone()),
                    _ => None,
                })
                .collect();
            if !vs.is_empty() {
                out.push(((**t).clone(), vs));
            }
        }
        RS::Union(bs) => {
            for (i, b) in bs.iter().enumerate() {
                if contains_ref(b) {
                    continue;
                }
                let vs: Vec<RV> = values
                    .iter()
                    .filter_map(|v| match v {
                        RV::Union(j, inner) if *j as usize == i => Some((**inner).clone()),
                        _ => None,
                    })
                    .collect();
                if !vs.is_empty() {
                    out.push((b.clone(), vs));
                }
            }
        }
        _ => {}
    }
    out
}

pub fn contains_ref(s: &RS) -> bool {
    match s {
        RS::Ref { .. } => true,
        RS::Record { fields, .. } => fields.iter().any(|(_, t)| contains_ref(t)),
        RS::Array(t) | RS::Map(t) => contains_ref(t),
        RS::Union(bs) => bs.iter().any(contains_ref),
        _ => false,
    }
}
