//! Small independent reference implementation, written from the Avro 1.11/1.12 specification:
//! zig-zag varints, binary datum encoder / strict decoder over the harness's own schema AST,
//! object container file writer / parser, CRC-64-AVRO, single-object header.

use crate::gen::{Defs, Logical, RS, RV};

pub fn put_long(out: &mut Vec<u8>, n: i64) {
    let mut z = ((n << 1) ^ (n >> 63)) as u64;
    loop {
        if z < 0x80 {
            out.push(z as u8);
            break;
        }
        out.push((z as u8 & 0x7F) | 0x80);
        z >>= 7;
    }
}

/// Strict varint: at most 10 bytes. None on truncation/overflow.
pub fn get_long(b: &[u8], p: &mut usize) -> Option<i64> {
    let mut z: u64 = 0;
    let mut shift = 0;
    loop {
        if shift > 63 {
            return None;
        }
        let byte = *b.get(*p)?;
        *p += 1;
        z |= ((byte & 0x7F) as u64) << shift;
        if byte & 0x80 == 0 {
            break;
        }
        shift += 7;
    }
    Some(((z >> 1) as i64) ^ -((z & 1) as i64))
}

pub fn long_len(n: i64) -> usize {
    let mut v = vec![];
    put_long(&mut v, n);
    v.len()
}

pub fn encode(v: &RV, s: &RS, defs: &Defs, out: &mut Vec<u8>) {
    encode_t(v, s, defs, out, &mut None)
}

pub type LeafTrace = Option<Vec<(usize, &'static str)>>;

thread_local! {
    /// When > 0, arrays and maps are written as several blocks of this many items (every second
    /// block in the form with a negative count followed by the block's byte size) - a valid
    /// encoding that other implementations produce and this crate's `Value` encoder never does.
    static BLOCK_SPLIT: std::cell::Cell<usize> = const { std::cell::Cell::new(0) };
}

/// Run `f` with arrays and maps encoded in blocks of `k` items (0 = one block).
pub fn with_block_split<T>(k: usize, f: impl FnOnce() -> T) -> T {
    let prev = BLOCK_SPLIT.with(|c| c.replace(k));
    let r = f();
    BLOCK_SPLIT.with(|c| c.set(prev));
    r
}

fn put_blocks(n: usize, out: &mut Vec<u8>, mut item: impl FnMut(usize, &mut Vec<u8>)) {
    let k = BLOCK_SPLIT.with(|c| c.get());
    if n == 0 {
        out.push(0);
        return;
    }
    if k == 0 || k >= n {
        put_long(out, n as i64);
        for i in 0..n {
            item(i, out);
        }
        out.push(0);
        return;
    }
    let mut i = 0;
    let mut blk = 0;
    while i < n {
        let m = k.min(n - i);
        if blk % 2 == 1 {
            let mut tmp = vec![];
            for j in i..i + m {
                item(j, &mut tmp);
            }
            put_long(out, -(m as i64));
            put_long(out, tmp.len() as i64);
            out.extend_from_slice(&tmp);
        } else {
            put_long(out, m as i64);
            for j in i..i + m {
                item(j, out);
            }
        }
        i += m;
        blk += 1;
    }
    out.push(0);
}

/// Encoder that optionally records (offset, schema kind) for every position where a node starts.
pub fn encode_t(v: &RV, s: &RS, defs: &Defs, out: &mut Vec<u8>, tr: &mut LeafTrace) {
    if let Some(t) = tr {
        let kind = match s {
            RS::Ref { .. } => "",
            RS::Logical(l, _) => l.name(),
            RS::Null => "null",
            RS::Boolean => "boolean",
            RS::Int => "int",
            RS::Long => "long",
            RS::Float => "float",
            RS::Double => "double",
            RS::Bytes => "bytes",
            RS::String => "string",
            RS::Fixed { .. } => "fixed",
            RS::Enum { .. } => "enum",
            RS::Record { .. } => "record",
            RS::Array(_) => "array",
            RS::Map(_) => "map",
            RS::Union(_) => "union",
        };
        if !kind.is_empty() {
            t.push((out.len(), kind));
        }
    }
    match (s, v) {
        (RS::Ref { full, .. }, _) => encode_t(v, &defs[full.trim_start_matches('.')], defs, out, tr),
        (RS::Logical(_, base), _) => encode_t(v, base, defs, out, &mut None),
        (RS::Null, RV::Null) => {}
        (RS::Boolean, RV::Bool(b)) => out.push(*b as u8),
        (RS::Int, RV::Int(i)) => put_long(out, *i as i64),
        (RS::Long, RV::Long(i)) => put_long(out, *i),
        (RS::Float, RV::Float(b)) => out.extend_from_slice(&b.to_le_bytes()),
        (RS::Double, RV::Double(b)) => out.extend_from_slice(&b.to_le_bytes()),
        (RS::Bytes, RV::Bytes(b)) => {
            put_long(out, b.len() as i64);
            out.extend_from_slice(b);
        }
        (RS::String, RV::Str(s)) => {
            put_long(out, s.len() as i64);
            out.extend_from_slice(s.as_bytes());
        }
        (RS::Fixed { size, .. }, RV::Fixed(b)) => {
            assert_eq!(*size, b.len());
            out.extend_from_slice(b);
        }
        (RS::Enum { .. }, RV::Enum(i)) => put_long(out, *i as i64),
        (RS::Record { fields, .. }, RV::Record(vs)) => {
            for ((_, t), v) in fields.iter().zip(vs) {
                encode_t(v, t, defs, out, tr);
            }
        }
        (RS::Array(t), RV::Array(vs)) if BLOCK_SPLIT.with(|c| c.get()) == 0 => {
            if !vs.is_empty() {
                put_long(out, vs.len() as i64);
                for v in vs {
                    encode_t(v, t, defs, out, tr);
                }
            }
            out.push(0);
        }
        (RS::Map(t), RV::Map(es)) if BLOCK_SPLIT.with(|c| c.get()) == 0 => {
            if !es.is_empty() {
                put_long(out, es.len() as i64);
                for (k, v) in es {
                    put_long(out, k.len() as i64);
                    out.extend_from_slice(k.as_bytes());
                    encode_t(v, t, defs, out, tr);
                }
            }
            out.push(0);
        }
        (RS::Array(t), RV::Array(vs)) => {
            // (no node trace inside split collections: offsets inside a negative-count block would be
            // relative to that block)
            put_blocks(vs.len(), out, |i, o| encode_t(&vs[i], t, defs, o, &mut None));
        }
        (RS::Map(t), RV::Map(es)) => {
            put_blocks(es.len(), out, |i, o| {
                put_long(o, es[i].0.len() as i64);
                o.extend_from_slice(es[i].0.as_bytes());
                encode_t(&es[i].1, t, defs, o, &mut None);
            });
        }
        (RS::Union(bs), RV::Union(i, inner)) => {
            put_long(out, *i as i64);
            encode_t(inner, &bs[*i as usize], defs, out, tr);
        }
        (s, v) => panic!("refimpl::encode: {v:?} does not fit {s:?}"),
    }
}

pub fn encode_vec(v: &RV, s: &RS, defs: &Defs) -> Vec<u8> {
    let mut out = vec![];
    encode(v, s, defs, &mut out);
    out
}

thread_local! { static STRUCTURAL: std::cell::Cell<bool> = const { std::cell::Cell::new(false) }; }

/// The reference decoder without the content rules of logical types: does `b` start with the
/// encoding of a datum of the schema's underlying types, and how long is it.
pub fn decode_structural(s: &RS, defs: &Defs, b: &[u8], budget: &mut i64) -> Option<usize> {
    STRUCTURAL.with(|c| c.set(true));
    let mut p = 0;
    let r = decode(s, defs, b, &mut p, budget);
    STRUCTURAL.with(|c| c.set(false));
    r.map(|_| p)
}

/// Strict reference decoder: Some(value) iff `b[*p..]` starts with a complete, well-formed datum.
/// `budget` bounds the number of nodes so hostile counts cannot blow up the harness.
pub fn decode(s: &RS, defs: &Defs, b: &[u8], p: &mut usize, budget: &mut i64) -> Option<RV> {
    *budget -= 1;
    if *budget < 0 {
        return None;
    }
    Some(match s {
        RS::Ref { full, .. } => return decode(&defs[full.trim_start_matches('.')], defs, b, p, budget),
        RS::Logical(l, base) => {
            let v = decode(base, defs, b, p, budget)?;
            if STRUCTURAL.with(|c| c.get()) {
                return Some(v);
            }
            // content rules of logical types
            match (l, &v) {
                (Logical::UuidString, RV::Str(s)) => {
                    uuid::Uuid::parse_str(s).ok()?;
                }
                (Logical::BigDecimal, RV::Bytes(inner)) => {
                    let mut q = 0;
                    let n = get_long(inner, &mut q)?;
                    if n < 0 || q + n as usize > inner.len() {
                        return None;
                    }
                    q += n as usize;
                    get_long(inner, &mut q)?;
                }
                _ => {}
            }
            v
        }
        RS::Null => RV::Null,
        RS::Boolean => {
            let x = *b.get(*p)?;
            *p += 1;
            match x {
                0 => RV::Bool(false),
                1 => RV::Bool(true),
                _ => return None,
            }
        }
        RS::Int => {
            let n = get_long(b, p)?;
            RV::Int(i32::try_from(n).ok()?)
        }
        RS::Long => RV::Long(get_long(b, p)?),
        RS::Float => {
            let x = b.get(*p..*p + 4)?;
            *p += 4;
            RV::Float(u32::from_le_bytes(x.try_into().unwrap()))
        }
        RS::Double => {
            let x = b.get(*p..*p + 8)?;
            *p += 8;
            RV::Double(u64::from_le_bytes(x.try_into().unwrap()))
        }
        RS::Bytes => {
            let n = get_long(b, p)?;
            if n < 0 {
                return None;
            }
            let x = b.get(*p..p.checked_add(n as usize)?)?;
            *p += n as usize;
            RV::Bytes(x.to_vec())
        }
        RS::String => {
            let n = get_long(b, p)?;
            if n < 0 {
                return None;
            }
            let x = b.get(*p..p.checked_add(n as usize)?)?;
            *p += n as usize;
            RV::Str(String::from_utf8(x.to_vec()).ok()?)
        }
        RS::Fixed { size, .. } => {
            let x = b.get(*p..*p + *size)?;
            *p += *size;
            RV::Fixed(x.to_vec())
        }
        RS::Enum { symbols, .. } => {
            let n = get_long(b, p)?;
            if n < 0 || n as usize >= symbols.len() {
                return None;
            }
            RV::Enum(n as u32)
        }
        RS::Record { fields, .. } => {
            let mut vs = Vec::with_capacity(fields.len());
            for (_, t) in fields {
                vs.push(decode(t, defs, b, p, budget)?);
            }
            RV::Record(vs)
        }
        RS::Array(t) => {
            let mut vs = vec![];
            loop {
                let mut n = get_long(b, p)?;
                if n == 0 {
                    break;
                }
                if n < 0 {
                    get_long(b, p)?;
                    n = n.checked_neg()?;
                }
                for _ in 0..n {
                    vs.push(decode(t, defs, b, p, budget)?);
                }
            }
            RV::Array(vs)
        }
        RS::Map(t) => {
            let mut es = vec![];
            loop {
                let mut n = get_long(b, p)?;
                if n == 0 {
                    break;
                }
                if n < 0 {
                    get_long(b, p)?;
                    n = n.checked_neg()?;
                }
                for _ in 0..n {
                    let k = match decode(&RS::String, defs, b, p, budget)? {
                        RV::Str(s) => s,
                        _ => unreachable!(),
                    };
                    let v = decode(t, defs, b, p, budget)?;
                    es.push((k, v));
                }
            }
            RV::Map(es)
        }
        RS::Union(bs) => {
            let n = get_long(b, p)?;
            if n < 0 || n as usize >= bs.len() {
                return None;
            }
            let inner = decode(&bs[n as usize], defs, b, p, budget)?;
            RV::Union(n as u32, Box::new(inner))
        }
    })
}

// ------------------------------------------------------------------------------------------------
// CRC-64-AVRO (Rabin fingerprint), from the specification's pseudo-code.

pub fn crc64_avro(data: &[u8]) -> u64 {
    const EMPTY: u64 = 0xc15d_213a_a4d7_a795;
    let mut table = [0u64; 256];
    for (i, slot) in table.iter_mut().enumerate() {
        let mut fp = i as u64;
        for _ in 0..8 {
            fp = (fp >> 1) ^ (EMPTY & (0u64.wrapping_sub(fp & 1)));
        }
        *slot = fp;
    }
    let mut fp = EMPTY;
    for b in data {
        fp = (fp >> 8) ^ table[((fp ^ *b as u64) & 0xff) as usize];
    }
    fp
}

/// Expected single-object header for a schema with the given Parsing Canonical Form.
pub fn single_object_header(canonical_form: &str) -> [u8; 10] {
    let mut h = [0u8; 10];
    h[0] = 0xC3;
    h[1] = 0x01;
    h[2..].copy_from_slice(&crc64_avro(canonical_form.as_bytes()).to_le_bytes());
    h
}

// ------------------------------------------------------------------------------------------------
// Codecs for the container format (same third-party crates as the library, called independently).

#[derive(Clone, Debug, PartialEq, serde::Serialize, serde::Deserialize)]
pub enum RCodec {
    Null,
    Deflate,
    Snappy,
    Bzip2,
    Xz,
    Zstd,
}

impl RCodec {
    pub const ALL: [RCodec; 6] = [RCodec::Null, RCodec::Deflate, RCodec::Snappy, RCodec::Bzip2, RCodec::Xz, RCodec::Zstd];

    pub fn name(&self) -> &'static str {
        match self {
            RCodec::Null => "null",
            RCodec::Deflate => "deflate",
            RCodec::Snappy => "snappy",
            RCodec::Bzip2 => "bzip2",
            RCodec::Xz => "xz",
            RCodec::Zstd => "zstandard",
        }
    }

    pub fn compress(&self, data: &[u8]) -> Vec<u8> {
        use std::io::Read;
        match self {
            RCodec::Null => data.to_vec(),
            RCodec::Deflate => miniz_oxide::deflate::compress_to_vec(data, 6),
            RCodec::Snappy => {
                let mut out = snap::raw::Encoder::new().compress_vec(data).unwrap();
                let mut h = crc32fast::Hasher::new();
                h.update(data);
                out.extend_from_slice(&h.finalize().to_be_bytes());
                out
            }
            RCodec::Bzip2 => {
                let mut out = vec![];
                bzip2::read::BzEncoder::new(data, bzip2::Compression::new(1)).read_to_end(&mut out).unwrap();
                out
            }
            RCodec::Xz => {
                let mut out = vec![];
                liblzma::read::XzEncoder::new(data, 0).read_to_end(&mut out).unwrap();
                out
            }
            RCodec::Zstd => zstd::encode_all(data, 1).unwrap(),
        }
    }

    pub fn decompress(&self, data: &[u8]) -> Option<Vec<u8>> {
        use std::io::Read;
        Some(match self {
            RCodec::Null => data.to_vec(),
            RCodec::Deflate => miniz_oxide::inflate::decompress_to_vec_with_limit(data, 1 << 28).ok()?,
            RCodec::Snappy => {
                if data.len() < 4 {
                    return None;
                }
                let body = &data[..data.len() - 4];
                let out = snap::raw::Decoder::new().decompress_vec(body).ok()?;
                let mut h = crc32fast::Hasher::new();
                h.update(&out);
                if h.finalize().to_be_bytes() != data[data.len() - 4..] {
                    return None;
                }
                out
            }
            RCodec::Bzip2 => {
                let mut out = vec![];
                bzip2::read::BzDecoder::new(data).take(1 << 28).read_to_end(&mut out).ok()?;
                out
            }
            RCodec::Xz => {
                let mut out = vec![];
                liblzma::read::XzDecoder::new(data).take(1 << 28).read_to_end(&mut out).ok()?;
                out
            }
            RCodec::Zstd => {
                let mut out = vec![];
                zstd::Decoder::new(data).ok()?.take(1 << 28).read_to_end(&mut out).ok()?;
                out
            }
        })
    }

    pub fn from_name(n: &[u8]) -> Option<RCodec> {
        RCodec::ALL.iter().find(|c| c.name().as_bytes() == n).cloned()
    }
}

// ------------------------------------------------------------------------------------------------
// Object container files

pub const MAGIC: [u8; 4] = [b'O', b'b', b'j', 1];

/// Write a header with the metadata in the given (fixed) order.
pub fn write_header(meta: &[(String, Vec<u8>)], marker: &[u8; 16]) -> Vec<u8> {
    let mut out = MAGIC.to_vec();
    if !meta.is_empty() {
        put_long(&mut out, meta.len() as i64);
        for (k, v) in meta {
            put_long(&mut out, k.len() as i64);
            out.extend_from_slice(k.as_bytes());
            put_long(&mut out, v.len() as i64);
            out.extend_from_slice(v);
        }
    }
    out.push(0);
    out.extend_from_slice(marker);
    out
}

pub fn write_block(out: &mut Vec<u8>, count: usize, raw_payload: &[u8], codec: &RCodec, marker: &[u8; 16]) {
    let payload = codec.compress(raw_payload);
    put_long(out, count as i64);
    put_long(out, payload.len() as i64);
    out.extend_from_slice(&payload);
    out.extend_from_slice(marker);
}

#[derive(Clone, Debug)]
pub struct ParsedBlock {
    /// offset of the first byte of the block (its count varint)
    pub start: usize,
    /// offset one past the trailing marker
    pub end: usize,
    pub count: i64,
    pub count_len: usize,
    pub size_len: usize,
    pub payload_start: usize,
    pub payload_len: usize,
    pub marker_start: usize,
    pub marker_ok: bool,
}

#[derive(Clone, Debug)]
pub struct ParsedFile {
    pub meta: Vec<(String, Vec<u8>)>,
    pub marker: [u8; 16],
    /// offset of the header's marker
    pub header_marker_start: usize,
    /// one past the header
    pub header_end: usize,
    pub blocks: Vec<ParsedBlock>,
    /// bytes after the last complete block (0 for a well-formed file)
    pub trailing: usize,
}

impl ParsedFile {
    pub fn meta_get(&self, k: &str) -> Option<&[u8]> {
        self.meta.iter().find(|(n, _)| n == k).map(|(_, v)| v.as_slice())
    }
    pub fn codec(&self) -> Option<RCodec> {
        match self.meta_get("avro.codec") {
            None => Some(RCodec::Null),
            Some(n) => RCodec::from_name(n),
        }
    }
    pub fn total_count(&self) -> i64 {
        self.blocks.iter().map(|b| b.count).sum()
    }
    /// Header with metadata sorted by key: order-insensitive canonical form.
    pub fn canonical_header(&self) -> Vec<u8> {
        let mut m = self.meta.clone();
        m.sort();
        write_header(&m, &self.marker)
    }
}

/// Parse the header only. None if the bytes do not start with a complete well-formed header.
pub fn parse_header(b: &[u8]) -> Option<ParsedFile> {
    if b.len() < 4 || b[..4] != MAGIC {
        return None;
    }
    let mut p = 4;
    let mut meta = vec![];
    loop {
        let mut n = get_long(b, &mut p)?;
        if n == 0 {
            break;
        }
        if n < 0 {
            get_long(b, &mut p)?;
            n = n.checked_neg()?;
        }
        for _ in 0..n {
            let kl = get_long(b, &mut p)?;
            if kl < 0 {
                return None;
            }
            let k = b.get(p..p.checked_add(kl as usize)?)?;
            p += kl as usize;
            let vl = get_long(b, &mut p)?;
            if vl < 0 {
                return None;
            }
            let v = b.get(p..p.checked_add(vl as usize)?)?;
            p += vl as usize;
            meta.push((String::from_utf8(k.to_vec()).ok()?, v.to_vec()));
        }
    }
    let m = b.get(p..p + 16)?;
    let mut marker = [0u8; 16];
    marker.copy_from_slice(m);
    Some(ParsedFile { meta, marker, header_marker_start: p, header_end: p + 16, blocks: vec![], trailing: 0 })
}

/// Parse a whole file: header, then as many complete blocks as there are. Never fails after the
/// header; what does not form a complete block is reported as `trailing`.
pub fn parse_file(b: &[u8]) -> Option<ParsedFile> {
    let mut f = parse_header(b)?;
    let mut p = f.header_end;
    loop {
        let start = p;
        let mut q = p;
        let Some(count) = get_long(b, &mut q) else { break };
        let count_len = q - p;
        let q0 = q;
        let Some(size) = get_long(b, &mut q) else { break };
        let size_len = q - q0;
        if size < 0 || count < 0 {
            break;
        }
        let Some(pe) = q.checked_add(size as usize) else { break };
        if pe.checked_add(16).is_none_or(|e| e > b.len()) {
            break;
        }
        let marker_ok = b[pe..pe + 16] == f.marker;
        f.blocks.push(ParsedBlock {
            start,
            end: pe + 16,
            count,
            count_len,
            size_len,
            payload_start: q,
            payload_len: size as usize,
            marker_start: pe,
            marker_ok,
        });
        p = pe + 16;
    }
    f.trailing = b.len() - p;
    Some(f)
}

/// Decode all values of a parsed file with the reference decoder. None if any block is malformed.
pub fn read_all(b: &[u8], f: &ParsedFile, schema: &RS, defs: &Defs) -> Option<Vec<Vec<RV>>> {
    let codec = f.codec()?;
    let mut out = vec![];
    for blk in &f.blocks {
        if !blk.marker_ok {
            return None;
        }
        let raw = codec.decompress(&b[blk.payload_start..blk.payload_start + blk.payload_len])?;
        let mut p = 0;
        let mut vs = vec![];
        let mut budget = 10_000_000;
        for _ in 0..blk.count {
            vs.push(decode(schema, defs, &raw, &mut p, &mut budget)?);
        }
        if p != raw.len() {
            return None;
        }
        out.push(vs);
    }
    Some(out)
}
