//! The byte seams: `SimSink` (the `Write` argument of every writer) and `SimSource` (the `Read`
//! argument of every reader). Their behaviour is a *plan* - a total function of what the code under
//! test does - so that a plan applies unchanged when a repaired tree issues a different sequence
//! of calls, and replay never consults a PRNG.

use serde::{Deserialize, Serialize};
use std::io::{self, ErrorKind, Read, Write};

/// How many bytes of an offered buffer a `write` call accepts.
#[derive(Clone, Debug, Serialize, Deserialize, PartialEq)]
pub enum Accept {
    /// Everything (what `Vec<u8>` does).
    All,
    /// At most k bytes per call (k >= 1).
    Const(usize),
    /// Everything except the last byte of any buffer longer than one byte.
    AllButLast,
    /// Never cross one of these absolute stream offsets (sorted); otherwise everything.
    Cuts(Vec<u64>),
    /// Pseudo-random chunk in 1..=max derived from (salt, call index): a function of the call
    /// sequence, not of a live PRNG.
    Hashed { salt: u64, max: usize },
}

#[derive(Clone, Copy, Debug, Serialize, Deserialize, PartialEq, Eq, Hash, PartialOrd, Ord)]
pub enum WriteFaultKind {
    /// `write` returns `ErrorKind::Other` once.
    Other,
    /// `write` returns `ErrorKind::Interrupted` once (legal; the caller is expected to retry or report).
    Interrupted,
    /// `write` returns `ErrorKind::WriteZero` once.
    WriteZero,
    /// `write` returns `Ok(0)` once for a non-empty buffer.
    ZeroAccept,
    /// `flush` returns `ErrorKind::Other` once.
    FlushErr,
    /// `write` panics once (a user-supplied sink may; the caller catches the unwind and carries on).
    Panic,
    /// every `write` once `n` bytes have been accepted fails with `StorageFull`-like `Other` (sticky).
    DiskFull,
}

#[derive(Clone, Debug, Serialize, Deserialize, PartialEq)]
pub struct WriteFault {
    pub kind: WriteFaultKind,
    /// index of the `write` call (or `flush` call for FlushErr) at which the fault fires;
    /// for DiskFull: the number of accepted bytes after which the disk is full.
    pub at: u64,
}

#[derive(Clone, Debug, Serialize, Deserialize, PartialEq)]
pub struct SinkPlan {
    pub accept: Accept,
    pub fault: Option<WriteFault>,
}

impl SinkPlan {
    pub fn perfect() -> Self {
        SinkPlan { accept: Accept::All, fault: None }
    }
}

#[derive(Clone, Debug, PartialEq, Eq)]
pub enum CallKind {
    Write,
    Flush,
}

#[derive(Clone, Debug)]
pub struct SinkCall {
    pub kind: CallKind,
    pub offered: usize,
    pub accepted: usize,
    pub err: Option<ErrorKind>,
}

pub struct SimSink {
    pub plan: SinkPlan,
    pub data: Vec<u8>,
    pub calls: Vec<SinkCall>,
    pub write_calls: u64,
    pub flush_calls: u64,
    /// set when a call accepted only a prefix: the bytes that must be offered next
    pub owed: Option<Vec<u8>>,
    /// number of times the code moved on after a short accept without re-offering the remainder
    pub dropped_remainders: u64,
    pub first_dropped_at_call: Option<usize>,
    pub faults_fired: Vec<WriteFaultKind>,
    pub short_accepts: u64,
    fault_done: bool,
    /// keep the call log bounded
    pub log_calls: bool,
}

fn mix(a: u64, b: u64) -> u64 {
    let mut z = a ^ b.wrapping_mul(0x9E37_79B9_7F4A_7C15);
    z = (z ^ (z >> 30)).wrapping_mul(0xBF58_476D_1CE4_E5B9);
    z = (z ^ (z >> 27)).wrapping_mul(0x94D0_49BB_1331_11EB);
    z ^ (z >> 31)
}

impl SimSink {
    pub fn new(plan: SinkPlan) -> Self {
        SimSink {
            plan,
            data: Vec::new(),
            calls: Vec::new(),
            write_calls: 0,
            flush_calls: 0,
            owed: None,
            dropped_remainders: 0,
            first_dropped_at_call: None,
            faults_fired: Vec::new(),
            short_accepts: 0,
            fault_done: false,
            log_calls: true,
        }
    }

    pub fn with_data(plan: SinkPlan, data: Vec<u8>) -> Self {
        let mut s = Self::new(plan);
        s.data = data;
        s
    }

    fn accept_len(&self, offered: usize) -> usize {
        if offered == 0 {
            return 0;
        }
        match &self.plan.accept {
            Accept::All => offered,
            Accept::Const(k) => offered.min((*k).max(1)),
            Accept::AllButLast => {
                if offered > 1 {
                    offered - 1
                } else {
                    offered
                }
            }
            Accept::Cuts(cuts) => {
                let pos = self.data.len() as u64;
                let mut n = offered;
                for c in cuts {
                    if *c > pos && *c < pos + offered as u64 {
                        n = (*c - pos) as usize;
                        break;
                    }
                }
                n
            }
            Accept::Hashed { salt, max } => {
                let m = (*max).max(1) as u64;
                let k = 1 + (mix(*salt, self.write_calls) % m) as usize;
                offered.min(k)
            }
        }
    }

    fn log(&mut self, c: SinkCall) {
        if self.log_calls && self.calls.len() < 4096 {
            self.calls.push(c);
        }
    }
}

impl Write for SimSink {
    fn write(&mut self, buf: &[u8]) -> io::Result<usize> {
        let idx = self.write_calls;
        self.write_calls += 1;
        // seam-local completeness invariant: after a short accept the remainder must be offered next
        if let Some(owed) = self.owed.take() {
            if !buf.starts_with(&owed) {
                self.dropped_remainders += 1;
                if self.first_dropped_at_call.is_none() {
                    self.first_dropped_at_call = Some(idx as usize);
                }
            }
        }
        if let Some(f) = &self.plan.fault {
            let fire = match f.kind {
                WriteFaultKind::DiskFull => self.data.len() as u64 >= f.at && !buf.is_empty(),
                WriteFaultKind::FlushErr => false,
                _ => !self.fault_done && idx == f.at,
            };
            if fire {
                let kind = f.kind;
                if kind != WriteFaultKind::DiskFull {
                    self.fault_done = true;
                }
                if self.faults_fired.len() < 8 {
                    self.faults_fired.push(kind);
                }
                if kind == WriteFaultKind::Panic {
                    self.log(SinkCall { kind: CallKind::Write, offered: buf.len(), accepted: 0, err: Some(ErrorKind::Other) });
                    panic!("sim: the sink panicked");
                }
                let (res, ek) = match kind {
                    WriteFaultKind::Other => (Err(io::Error::other("sim: injected write error")), Some(ErrorKind::Other)),
                    WriteFaultKind::Interrupted => (
                        Err(io::Error::new(ErrorKind::Interrupted, "sim: EINTR")),
                        Some(ErrorKind::Interrupted),
                    ),
                    WriteFaultKind::WriteZero => (
                        Err(io::Error::new(ErrorKind::WriteZero, "sim: write zero")),
                        Some(ErrorKind::WriteZero),
                    ),
                    WriteFaultKind::DiskFull => (Err(io::Error::other("sim: disk full")), Some(ErrorKind::Other)),
                    WriteFaultKind::ZeroAccept => (Ok(0), None),
                    WriteFaultKind::FlushErr | WriteFaultKind::Panic => unreachable!(),
                };
                if kind == WriteFaultKind::ZeroAccept && !buf.is_empty() {
                    self.owed = Some(buf.to_vec());
                    self.short_accepts += 1;
                }
                self.log(SinkCall { kind: CallKind::Write, offered: buf.len(), accepted: 0, err: ek });
                return res;
            }
        }
        let n = self.accept_len(buf.len());
        self.data.extend_from_slice(&buf[..n]);
        if n < buf.len() {
            self.owed = Some(buf[n..].to_vec());
            self.short_accepts += 1;
        }
        self.log(SinkCall { kind: CallKind::Write, offered: buf.len(), accepted: n, err: None });
        Ok(n)
    }

    fn flush(&mut self) -> io::Result<()> {
        let idx = self.flush_calls;
        self.flush_calls += 1;
        if let Some(f) = &self.plan.fault {
            if f.kind == WriteFaultKind::FlushErr && !self.fault_done && idx == f.at {
                self.fault_done = true;
                self.faults_fired.push(WriteFaultKind::FlushErr);
                self.log(SinkCall { kind: CallKind::Flush, offered: 0, accepted: 0, err: Some(ErrorKind::Other) });
                return Err(io::Error::other("sim: injected flush error"));
            }
        }
        self.log(SinkCall { kind: CallKind::Flush, offered: 0, accepted: 0, err: None });
        Ok(())
    }
}

// ---------------------------------------------------------------------------------------------

/// How many bytes a `read` call returns.
#[derive(Clone, Debug, Serialize, Deserialize, PartialEq)]
pub enum Chunk {
    All,
    Const(usize),
    Hashed { salt: u64, max: usize },
}

#[derive(Clone, Copy, Debug, Serialize, Deserialize, PartialEq, Eq, Hash, PartialOrd, Ord)]
pub enum ReadFaultKind {
    /// `ErrorKind::Other` when the read position reaches the offset (sticky: every later read fails too).
    Other,
    /// `ErrorKind::Interrupted` once when the read position reaches the offset, then continue.
    Interrupted,
    /// End of data at the offset (truncation).
    Eof,
    /// One error of the given kind when the read position reaches the offset; the source then goes
    /// on delivering data (a socket timeout, a would-block, a reset that the caller retries).
    /// 0 = Other, 1 = WouldBlock, 2 = TimedOut, 3 = ConnectionReset
    Once(u8),
}

#[derive(Clone, Debug, Serialize, Deserialize, PartialEq)]
pub struct ReadFault {
    pub kind: ReadFaultKind,
    pub at: u64,
}

#[derive(Clone, Debug, Serialize, Deserialize, PartialEq)]
pub struct SourcePlan {
    pub chunk: Chunk,
    pub faults: Vec<ReadFault>,
    /// `Interrupted` on every k-th call (0 = never), in addition to `faults`.
    pub eintr_every: u64,
}

impl SourcePlan {
    pub fn perfect() -> Self {
        SourcePlan { chunk: Chunk::All, faults: vec![], eintr_every: 0 }
    }
    pub fn eof_at(at: u64, chunk: Chunk) -> Self {
        SourcePlan { chunk, faults: vec![ReadFault { kind: ReadFaultKind::Eof, at }], eintr_every: 0 }
    }
}

pub struct SimSource<'a> {
    pub data: &'a [u8],
    pub plan: SourcePlan,
    pub pos: usize,
    pub calls: u64,
    pub eintrs: u64,
    pub errs: u64,
    pub eof_hits: u64,
    pub short_reads: u64,
    pub max_requested: usize,
    eintr_done: Vec<bool>,
    limit: usize,
    err_at: Option<usize>,
    last_was_eintr: bool,
    /// deterministic step budget: after this many calls every read fails (a decoder that keeps
    /// going is hanging)
    pub call_budget: u64,
    pub budget_exceeded: bool,
}

impl<'a> SimSource<'a> {
    pub fn new(data: &'a [u8], plan: SourcePlan) -> Self {
        let mut limit = data.len();
        let mut err_at = None;
        for f in &plan.faults {
            match f.kind {
                ReadFaultKind::Eof => limit = limit.min(f.at as usize),
                ReadFaultKind::Other => {
                    let a = f.at as usize;
                    err_at = Some(err_at.map_or(a, |e: usize| e.min(a)));
                }
                ReadFaultKind::Interrupted | ReadFaultKind::Once(_) => {}
            }
        }
        let n = plan.faults.len();
        SimSource {
            data,
            plan,
            pos: 0,
            calls: 0,
            eintrs: 0,
            errs: 0,
            eof_hits: 0,
            short_reads: 0,
            max_requested: 0,
            eintr_done: vec![false; n],
            limit,
            err_at,
            last_was_eintr: false,
            call_budget: u64::MAX,
            budget_exceeded: false,
        }
    }
}

impl Read for SimSource<'_> {
    fn read(&mut self, buf: &mut [u8]) -> io::Result<usize> {
        let idx = self.calls;
        self.calls += 1;
        self.max_requested = self.max_requested.max(buf.len());
        if self.calls > self.call_budget {
            self.budget_exceeded = true;
            return Err(io::Error::other("sim: step budget exceeded"));
        }
        if buf.is_empty() {
            return Ok(0);
        }
        // hard stop that bounds every read position
        let mut stop = self.limit;
        if let Some(e) = self.err_at {
            if self.pos >= e {
                self.errs += 1;
                return Err(io::Error::other("sim: injected read error"));
            }
            stop = stop.min(e);
        }
        // one-shot EINTRs at offsets
        for (i, f) in self.plan.faults.iter().enumerate() {
            if f.kind == ReadFaultKind::Interrupted && !self.eintr_done[i] {
                let a = f.at as usize;
                if self.pos >= a {
                    self.eintr_done[i] = true;
                    self.eintrs += 1;
                    self.last_was_eintr = true;
                    return Err(io::Error::new(ErrorKind::Interrupted, "sim: EINTR"));
                } else {
                    stop = stop.min(a);
                }
            }
        }
        for (i, f) in self.plan.faults.iter().enumerate() {
            if let ReadFaultKind::Once(k) = f.kind {
                if !self.eintr_done[i] {
                    let a = f.at as usize;
                    if self.pos >= a {
                        self.eintr_done[i] = true;
                        self.errs += 1;
                        let kind = match k {
                            1 => ErrorKind::WouldBlock,
                            2 => ErrorKind::TimedOut,
                            3 => ErrorKind::ConnectionReset,
                            _ => ErrorKind::Other,
                        };
                        return Err(io::Error::new(kind, "sim: one-off read error"));
                    } else {
                        stop = stop.min(a);
                    }
                }
            }
        }
        if self.plan.eintr_every > 0 && !self.last_was_eintr && (idx + 1) % self.plan.eintr_every == 0 {
            self.eintrs += 1;
            self.last_was_eintr = true;
            return Err(io::Error::new(ErrorKind::Interrupted, "sim: EINTR"));
        }
        self.last_was_eintr = false;
        if self.pos >= self.limit {
            self.eof_hits += 1;
            return Ok(0);
        }
        let avail = stop - self.pos;
        let want = buf.len().min(avail);
        let n = match &self.plan.chunk {
            Chunk::All => want,
            Chunk::Const(k) => want.min((*k).max(1)),
            Chunk::Hashed { salt, max } => {
                let m = (*max).max(1) as u64;
                want.min(1 + (mix(*salt, idx) % m) as usize)
            }
        };
        if n < buf.len() {
            self.short_reads += 1;
        }
        buf[..n].copy_from_slice(&self.data[self.pos..self.pos + n]);
        self.pos += n;
        Ok(n)
    }
}
