//! C03 - container files return exactly the appended values for any writer history.
//!
//! One case = a configuration and an operation history over up to three writer generations
//! (fresh writer, then `append_to` on the surviving bytes), with failing appends, explicit
//! flushes, reset, finishing by `into_inner` or by drop. Checked operation by operation against
//! the `FileModel`.

use crate::common::{CodecSpec, parse_rs};
use crate::corpus::{self, Corp};
use crate::gen::{NameStyle, RS, RV, ValueGen, avro_eq, gen_schema, to_avro, to_json, wrong_kind_value};
use crate::harness::{Ctx, Failure, Property, Tier, guarded};
use crate::refimpl;
use crate::rng::Rng;
use crate::seams::{Chunk, SimSource, SourcePlan};
use crate::with_corpus;
use apache_avro::types::Value;
use apache_avro::{AvroSchema, Reader, Schema, Writer, read_marker};
use serde::{Deserialize, Serialize};
use serde_json::{Value as J, json};
use std::cell::RefCell;
use std::collections::BTreeMap;
use std::rc::Rc;

#[derive(Clone, Debug, Serialize, Deserialize)]
pub enum Val {
    R(RV),
    C(J),
}

#[derive(Clone, Debug, Serialize, Deserialize)]
pub enum Op {
    /// how: 0 append_value, 1 append_value_ref, 2 unvalidated_append_value, 3 unvalidated_append_value_ref, 4 append_ser (corpus only)
    Append { how: u8, v: Val },
    /// how: 0 extend, 1 extend_from_slice, 2 extend_ser (corpus only)
    Extend { how: u8, vs: Vec<Val> },
    Flush,
    AddMeta(String, Vec<u8>),
    Reset,
    /// append_value_ref of a value of the wrong kind (rejected by validation)
    FailWrongKind,
    /// append_value_ref of a root record missing its trailing nullable field (validates, fails in the encoder)
    FailMissingNullable(Val),
    /// append_ser of the corpus type's mismatching twin (fails part-way through serialization)
    FailSerTwin(u64),
    /// extend_from_slice whose FIRST element is of the wrong kind
    FailExtendFirstBad(Vec<Val>),
}

impl Op {
    fn kind(&self) -> &'static str {
        match self {
            Op::Append { how: 4, .. } => "append_ser",
            Op::Append { how: 2 | 3, .. } => "unvalidated",
            Op::Append { .. } => "append",
            Op::Extend { how: 2, .. } => "extend_ser",
            Op::Extend { .. } => "extend",
            Op::Flush => "flush",
            Op::AddMeta(..) => "add_meta",
            Op::Reset => "reset",
            Op::FailWrongKind => "fail_validation",
            Op::FailMissingNullable(_) => "fail_in_encoder",
            Op::FailSerTwin(_) => "fail_in_serializer",
            Op::FailExtendFirstBad(_) => "fail_extend",
        }
    }
    fn is_fail(&self) -> bool {
        matches!(self, Op::FailWrongKind | Op::FailMissingNullable(_) | Op::FailSerTwin(_) | Op::FailExtendFirstBad(_))
    }
}

#[derive(Clone, Debug, Serialize, Deserialize, PartialEq)]
pub enum Finish {
    IntoInner,
    Drop,
}

#[derive(Clone, Debug, Serialize, Deserialize)]
pub struct Generation {
    pub ops: Vec<Op>,
    pub finish: Finish,
}

#[derive(Clone, Debug, Serialize, Deserialize)]
pub enum Subject {
    Generic(RS),
    Corpus(String),
}

#[derive(Clone, Debug, Serialize, Deserialize)]
pub struct Case {
    pub subject: Subject,
    pub codec: CodecSpec,
    pub block_size: usize,
    pub mabs: Option<usize>,
    pub meta: Vec<(String, Vec<u8>)>,
    pub marker: [u8; 16],
    pub gens: Vec<Generation>,
    pub salt: u64,
    /// corpus subjects: != 0 => the writer's schema lists the record fields in another order than the
    /// Rust type serializes them (values handed over as `Value` follow the schema's order)
    #[serde(default)]
    pub perm: u64,
}

#[derive(Clone, Copy, PartialEq, Debug)]
enum Hdr {
    No,
    Yes,
    Maybe,
}

/// Reference model of the file.
struct FileModel {
    durable: Vec<Value>,
    pending: Vec<Value>,
    meta: BTreeMap<String, Vec<u8>>,
    header: Hdr,
}

struct ReadBack {
    values: Vec<Value>,
    meta: BTreeMap<String, Vec<u8>>,
    schema_equal: bool,
}

fn read_back(bytes: &[u8], schema: &Schema, salt: u64, corpus: Option<&str>) -> Result<ReadBack, String> {
    let plan = SourcePlan { chunk: Chunk::Hashed { salt, max: 11 }, faults: vec![], eintr_every: 5 };
    let r = guarded(|| -> Result<ReadBack, String> {
        let mut src = SimSource::new(bytes, plan.clone());
        let rd = Reader::new(&mut src).map_err(|e| format!("Reader::new: {e}"))?;
        let schema_equal = rd.writer_schema() == schema && rd.writer_schema().canonical_form() == schema.canonical_form();
        let meta: BTreeMap<String, Vec<u8>> = rd.user_metadata().iter().map(|(k, v)| (k.clone(), v.clone())).collect();
        let mut values = vec![];
        for item in rd {
            values.push(item.map_err(|e| format!("item {}: {e}", values.len()))?);
        }
        Ok(ReadBack { values, meta, schema_equal })
    });
    let rb = match r {
        Err(p) => return Err(format!("panic while reading back: {p}")),
        Ok(r) => r?,
    };
    // typed iterator must agree
    if let Some(id) = corpus {
        let typed: Result<Vec<Value>, String> = with_corpus!(id, T => {
            match guarded(|| -> Result<Vec<Value>, String> {
                let mut src = SimSource::new(bytes, SourcePlan::perfect());
                let rd = Reader::new(&mut src).map_err(|e| format!("Reader::new: {e}"))?;
                let mut out = vec![];
                for item in rd.into_deser_iter::<T>() {
                    out.push(crate::corpus::reorder_to_schema(item.map_err(|e| format!("deser item {}: {e}", out.len()))?.to_value(), schema));
                }
                Ok(out)
            }) {
                Err(p) => Err(format!("panic in deser iterator: {p}")),
                Ok(r) => r,
            }
        });
        let typed = typed?;
        if typed.len() != rb.values.len() || !typed.iter().zip(&rb.values).all(|(a, b)| avro_eq(a, b)) {
            return Err(format!("into_deser_iter yields {} items that differ from the {} items of the value iterator", typed.len(), rb.values.len()));
        }
    }
    Ok(rb)
}

fn diff_class(got: &[Value], want: &[Value]) -> (&'static str, String) {
    let common = got.iter().zip(want).take_while(|(a, b)| avro_eq(a, b)).count();
    if got.len() < want.len() && common == got.len() {
        return ("values-lost", format!("file holds {} values, a strict prefix of the {} appended", got.len(), want.len()));
    }
    if got.len() > want.len() && common == want.len() {
        return ("values-extra", format!("file holds {} values, {} more than the {} appended", got.len(), got.len() - want.len(), want.len()));
    }
    // altered / reordered
    let class = if got.len() == want.len() { "values-altered" } else if got.len() < want.len() { "values-lost" } else { "values-extra" };
    (
        class,
        format!(
            "file holds {} values, {} appended; first difference at index {common}: got {} want {}",
            got.len(),
            want.len(),
            got.get(common).map(crate::gen::describe_value).unwrap_or_else(|| "<none>".into()),
            want.get(common).map(crate::gen::describe_value).unwrap_or_else(|| "<none>".into())
        ),
    )
}

struct Env<'a> {
    schema: &'a Schema,
    rs: Option<(&'a RS, &'a crate::gen::Defs)>,
    corpus: Option<&'a str>,
    salt: u64,
}

impl Env<'_> {
    fn value(&self, v: &Val) -> Value {
        match (v, &self.rs, self.corpus) {
            (Val::R(rv), Some((rs, defs)), _) => to_avro(rv, rs, defs),
            (Val::C(j), _, Some(id)) => {
                let v = with_corpus!(id, T => serde_json::from_value::<T>(j.clone()).expect("corpus value").to_value());
                crate::corpus::reorder_to_schema(v, self.schema)
            }
            _ => panic!("value/subject mismatch"),
        }
    }
}

fn fail_at(class: &str, ctxs: &str, detail: String) -> Failure {
    Failure::new(class, format!("C03 {class} after={ctxs}"), detail)
}

/// Check the bytes in the sink against the model. `strict`: durability point (pending must be on disk).
fn check_file(bytes: &[u8], m: &FileModel, env: &Env, strict: bool, after: &str, gen_no: usize) -> Option<Failure> {
    if bytes.is_empty() {
        if m.header == Hdr::Yes || strict {
            return Some(fail_at("header-missing", after, format!("generation {gen_no}: the sink is empty although the header must be on disk")));
        }
        return None;
    }
    // independent structural check
    let Some(pf) = refimpl::parse_file(bytes) else {
        return Some(fail_at("file-malformed", after, format!("generation {gen_no}: the {} bytes in the sink do not start with a well-formed header", bytes.len())));
    };
    if pf.trailing != 0 {
        return Some(fail_at(
            "file-malformed",
            after,
            format!("generation {gen_no}: {} trailing bytes after the last complete block (file is {} bytes, {} blocks)", pf.trailing, bytes.len(), pf.blocks.len()),
        ));
    }
    if pf.blocks.iter().any(|b| !b.marker_ok) {
        return Some(fail_at("marker-differs", after, format!("generation {gen_no}: a block trailer differs from the header's sync marker")));
    }
    if pf.blocks.iter().any(|b| b.count <= 0) {
        return Some(fail_at("file-malformed", after, format!("generation {gen_no}: a block declares a non-positive object count")));
    }
    let rb = match read_back(bytes, env.schema, env.salt, env.corpus) {
        Ok(r) => r,
        Err(e) => {
            return Some(fail_at("file-unreadable", after, format!("generation {gen_no}: reading the sink bytes back fails: {e}")));
        }
    };
    if pf.total_count() != rb.values.len() as i64 {
        return Some(fail_at(
            "count-mismatch",
            after,
            format!("generation {gen_no}: block counts sum to {} but the reader yields {} values", pf.total_count(), rb.values.len()),
        ));
    }
    if !rb.schema_equal {
        return Some(fail_at("schema-differs", after, format!("generation {gen_no}: Reader::writer_schema differs from the writer's schema")));
    }
    if rb.meta != m.meta {
        return Some(fail_at(
            "metadata-differs",
            after,
            format!("generation {gen_no}: user metadata read back {:?} differs from what was added {:?}", rb.meta.keys().collect::<Vec<_>>(), m.meta.keys().collect::<Vec<_>>()),
        ));
    }
    let all: Vec<Value> = m.durable.iter().chain(m.pending.iter()).cloned().collect();
    if strict {
        if rb.values.len() != all.len() || !rb.values.iter().zip(&all).all(|(a, b)| avro_eq(a, b)) {
            let (class, d) = diff_class(&rb.values, &all);
            return Some(fail_at(class, after, format!("generation {gen_no}, at a durability point: {d}")));
        }
    } else {
        // prefix invariant
        let n = rb.values.len();
        if n < m.durable.len() || n > all.len() || !rb.values.iter().zip(&all).all(|(a, b)| avro_eq(a, b)) {
            let (class, d) = diff_class(&rb.values, &all[..n.min(all.len())]);
            let class = if n < m.durable.len() { "values-lost" } else { class };
            return Some(fail_at(
                class,
                after,
                format!("generation {gen_no}, between operations: file is not a prefix (>= {} flushed, <= {} appended values): {d}", m.durable.len(), all.len()),
            ));
        }
    }
    None
}

/// The allocation limit this process runs under (a tuning knob the property must not depend on: a
/// block of many small values is far below it in bytes, whatever its object count).
pub const C03_ALLOCATION_LIMIT: usize = 512 * 1024;
/// Values in the one big `extend` of a many-small-values case (count x size_of::<Value>() exceeds
/// the limit above; the block's bytes do not).
const MANY: usize = 10_000;

fn run_case(case: &Case, ctx: &mut Ctx) -> Option<Failure> {
    static LIMIT: std::sync::Once = std::sync::Once::new();
    LIMIT.call_once(|| {
        apache_avro::util::max_allocation_bytes(C03_ALLOCATION_LIMIT);
    });
    // schema
    let parsed;
    let corpus_schema;
    let (schema, rs, corpus): (&Schema, Option<(&RS, &crate::gen::Defs)>, Option<&str>) = match &case.subject {
        Subject::Generic(rs) => {
            parsed = parse_rs(rs)?;
            (&parsed.schema, Some((rs, &parsed.defs)), None)
        }
        Subject::Corpus(id) => {
            corpus_schema = with_corpus!(id.as_str(), T => crate::corpus::permuted_schema(&T::get_schema(), case.perm));
            (&corpus_schema, None, Some(id.as_str()))
        }
    };
    let env = Env { schema, rs, corpus, salt: case.salt };
    // markers drawn by the library (reset) come from the case, not from `rand`
    let mut mk = Rng::new(case.salt ^ 0x6d61726b);
    apache_avro::verif_hooks::set_next_marker(Some(Box::new(move || {
        let mut m = [0u8; 16];
        m.copy_from_slice(&mk.bytes(16));
        m
    })));
    struct Unhook;
    impl Drop for Unhook {
        fn drop(&mut self) {
            apache_avro::verif_hooks::set_next_marker(None);
        }
    }
    let _unhook = Unhook;

    let mut model = FileModel { durable: vec![], pending: vec![], meta: BTreeMap::new(), header: Hdr::No };
    let mut disk: Vec<u8> = vec![];
    let mut last2: (&str, &str) = ("start", "start");
    for (gen_no, generation) in case.gens.iter().enumerate() {
        let codec = case.codec.to_lib();
        let sink = SharedSink::with(std::mem::take(&mut disk));
        let disk_len = sink.len();
        let w = if gen_no == 0 {
            let mut user_meta = std::collections::HashMap::new();
            for (k, v) in &case.meta {
                user_meta.insert(k.clone(), Value::Bytes(v.clone()));
                model.meta.insert(k.clone(), v.clone());
            }
            Writer::builder()
                .schema(schema)
                .writer(sink.clone())
                .codec(codec)
                .block_size(case.block_size)
                .marker(case.marker)
                .user_metadata(user_meta)
                .maybe_map_array_target_block_size(case.mabs)
                .build()
        } else {
            if disk_len <= 16 {
                return Some(fail_at("file-malformed", "finish", format!("generation {gen_no}: only {disk_len} bytes survived the previous generation")));
            }
            ctx.agg.count("fault.reopen_append_to");
            if last2.1.starts_with("fail") || last2.0.starts_with("fail") {
                ctx.agg.count("probe.reopen_after_failed_append");
            }
            let marker = read_marker(&sink.snapshot());
            Writer::builder()
                .schema(schema)
                .writer(sink.clone())
                .codec(codec)
                .block_size(case.block_size)
                .marker(marker)
                .has_header(true)
                .maybe_map_array_target_block_size(case.mabs)
                .build()
        };
        let mut w = match w {
            Ok(w) => w,
            Err(e) => {
                ctx.agg.count("scenario.setup_rejected");
                ctx.ev(&e.to_string());
                return None;
            }
        };
        if gen_no > 0 {
            model.header = Hdr::Yes;
            model.durable.append(&mut model.pending);
        }
        for (opi, op) in generation.ops.iter().enumerate() {
            let kind = op.kind();
            ctx.eval();
            ctx.agg.state(format!("tri|{}|{}|{}", last2.0, last2.1, kind));
            let before_len = sink.len();
            let pending_before = model.pending.len();
            // perform
            let res: Result<Result<(), String>, String> = guarded(|| -> Result<(), String> {
                match op {
                    Op::Append { how, v } => {
                        let val = env.value(v);
                        match how {
                            0 => w.append_value(val.clone()).map(|_| ()),
                            1 => w.append_value_ref(&val).map(|_| ()),
                            2 => w.unvalidated_append_value(val.clone()).map(|_| ()),
                            3 => w.unvalidated_append_value_ref(&val).map(|_| ()),
                            _ => match (v, corpus) {
                                (Val::C(j), Some(id)) => with_corpus!(id, T => {
                                    let t: T = serde_json::from_value(j.clone()).expect("corpus value");
                                    w.append_ser(&t).map(|_| ())
                                }),
                                _ => w.append_value_ref(&val).map(|_| ()),
                            },
                        }
                        .map_err(|e| e.to_string())
                    }
                    Op::Extend { how, vs } => {
                        let vals: Vec<Value> = vs.iter().map(|v| env.value(v)).collect();
                        match how {
                            0 => w.extend(vals.clone()).map(|_| ()),
                            1 => w.extend_from_slice(&vals).map(|_| ()),
                            _ => match corpus {
                                Some(id) => with_corpus!(id, T => {
                                    let ts: Vec<T> = vs.iter().map(|v| match v { Val::C(j) => serde_json::from_value(j.clone()).expect("corpus value"), _ => panic!("mismatch") }).collect();
                                    w.extend_ser(ts.iter()).map(|_| ())
                                }),
                                None => w.extend_from_slice(&vals).map(|_| ()),
                            },
                        }
                        .map_err(|e| e.to_string())
                    }
                    Op::Flush => w.flush().map(|_| ()).map_err(|e| e.to_string()),
                    Op::AddMeta(k, v) => w.add_user_metadata(k.clone(), v).map_err(|e| e.to_string()),
                    Op::Reset => {
                        w.reset();
                        Ok(())
                    }
                    Op::FailWrongKind => {
                        let bad = match &env.rs {
                            Some((rs, defs)) => wrong_kind_value(rs, defs),
                            None => Value::Array(vec![Value::Boolean(true)]),
                        };
                        w.append_value_ref(&bad).map(|_| ()).map_err(|e| e.to_string())
                    }
                    Op::FailMissingNullable(v) => {
                        let mut val = env.value(v);
                        if let Value::Record(fs) = &mut val {
                            fs.pop();
                        }
                        w.append_value_ref(&val).map(|_| ()).map_err(|e| e.to_string())
                    }
                    Op::FailSerTwin(seed) => match corpus {
                        Some(id) => with_corpus!(id, T => {
                            let bad = T::bad(&mut Rng::new(*seed));
                            w.append_ser(&bad).map(|_| ()).map_err(|e| e.to_string())
                        }),
                        None => Err("n/a".into()),
                    },
                    Op::FailExtendFirstBad(vs) => {
                        let mut vals: Vec<Value> = vs.iter().map(|v| env.value(v)).collect();
                        let bad = match &env.rs {
                            Some((rs, defs)) => wrong_kind_value(rs, defs),
                            None => Value::Array(vec![Value::Boolean(true)]),
                        };
                        vals.insert(0, bad);
                        w.extend_from_slice(&vals).map(|_| ()).map_err(|e| e.to_string())
                    }
                }
            });
            let res = match res {
                Err(p) => {
                    return Some(fail_at("panic", kind, format!("generation {gen_no} op #{opi} {kind} panicked: {p}")));
                }
                Ok(r) => r,
            };
            ctx.ev(kind);
            ctx.ev_u(res.is_ok() as u64);
            // model transition
            let mut durability_point = false;
            match (op, &res) {
                (Op::Append { v, .. }, Ok(())) => {
                    model.pending.push(env.value(v));
                    model.header = Hdr::Yes;
                }
                (Op::Extend { vs, .. }, Ok(())) => {
                    for v in vs {
                        model.pending.push(env.value(v));
                    }
                    model.durable.append(&mut model.pending);
                    model.header = Hdr::Yes;
                    durability_point = true;
                }
                (Op::Flush, Ok(())) => {
                    model.durable.append(&mut model.pending);
                    model.header = Hdr::Yes;
                    durability_point = true;
                }
                (Op::AddMeta(k, v), r) => {
                    let reserved = k.starts_with("avro.");
                    if reserved {
                        // refused whatever the header state is; tells nothing about it
                        if r.is_ok() {
                            return Some(fail_at("reserved-metadata-accepted", kind, format!("generation {gen_no} op #{opi}: add_user_metadata accepted the reserved key {k}")));
                        }
                    } else {
                        match (model.header, r) {
                            (Hdr::No, Ok(())) => {
                                model.meta.insert(k.clone(), v.clone());
                            }
                            (Hdr::No, Err(e)) => {
                                return Some(fail_at("metadata-refused", kind, format!("generation {gen_no} op #{opi}: add_user_metadata before any header was written failed: {e}")));
                            }
                            (Hdr::Yes, Ok(())) => {
                                return Some(fail_at("metadata-accepted-after-header", kind, format!("generation {gen_no} op #{opi}: add_user_metadata succeeded although the header is already on disk (the entry can never reach the file)")));
                            }
                            (Hdr::Yes, Err(_)) => {}
                            (Hdr::Maybe, Ok(())) => {
                                model.meta.insert(k.clone(), v.clone());
                                model.header = Hdr::No;
                            }
                            (Hdr::Maybe, Err(_)) => model.header = Hdr::Yes,
                        }
                    }
                }
                (Op::Reset, _) => {
                    ctx.agg.count("fault.reset");
                    model.durable.clear();
                    model.pending.clear();
                    model.meta.clear();
                    model.header = Hdr::No;
                }
                (o, Ok(())) if o.is_fail() => {
                    // the library accepted a near-miss: not a failed append after all. The value it
                    // wrote is unknown to the model, so this history cannot be judged further.
                    ctx.agg.count("scenario.near_miss_accepted");
                    return None;
                }
                (o, Err(_)) if o.is_fail() => {
                    ctx.agg.count(&format!("fault.{}", o.kind()));
                    if pending_before > 0 {
                        ctx.agg.count("probe.failed_append_with_pending_values");
                    }
                    // an Err leaves the model untouched; whether the header went out is not judged
                    if model.header == Hdr::No {
                        model.header = Hdr::Maybe;
                    }
                }
                (_, Err(e)) => {
                    // a conforming operation on a Vec sink must not fail
                    return Some(fail_at("good-operation-failed", kind, format!("generation {gen_no} op #{opi} {kind} failed: {e}")));
                }
                _ => {}
            }
            let after_len = sink.len();
            if matches!(op, Op::Append { .. }) && res.is_ok() && after_len > before_len && before_len > 0 {
                ctx.agg.count("probe.size_threshold_flush");
            }
            if case.block_size == 0 {
                ctx.agg.count("probe.block_size_zero");
            }
            if matches!(op, Op::Extend { vs, .. } if vs.len() >= MANY) && res.is_ok() {
                ctx.agg.count("probe.block_with_object_count_beyond_allocation_limit");
            }
            let pend_class = match model.pending.len() {
                0 => "0",
                1 => "1",
                _ => "2+",
            };
            ctx.agg.state(format!(
                "st|hdr:{:?}|pend:{pend_class}|gen:{gen_no}|codec:{}|{kind}|{}",
                model.header,
                case.codec.kind(),
                if res.is_ok() { "ok" } else { "err" }
            ));
            ctx.steps(1);
            // checks
            let strict = durability_point;
            let sample_between = strict || (case.salt.wrapping_add(opi as u64 * 7 + gen_no as u64) % 3 == 0) || op.is_fail();
            if sample_between {
                if let Some(f) = check_file(&sink.snapshot(), &model, &env, strict, kind, gen_no) {
                    return Some(f);
                }
            }
            last2 = (last2.1, kind);
        }
        // finish
        if !model.pending.is_empty() && generation.finish == Finish::Drop {
            ctx.agg.count("probe.drop_with_pending_values");
        }
        ctx.agg.count(if generation.finish == Finish::Drop { "fault.drop_without_flush" } else { "fault.into_inner" });
        let fin = guarded(|| -> Result<Vec<u8>, String> {
            match generation.finish {
                Finish::IntoInner => w.into_inner().map(|s| s.snapshot()).map_err(|e| e.to_string()),
                Finish::Drop => {
                    // a real drop: only the flush-on-drop path runs; the sink survives
                    drop(w);
                    Ok(sink.snapshot())
                }
            }
        });
        disk = match fin {
            Err(p) => return Some(fail_at("panic", "finish", format!("generation {gen_no}: finishing panicked: {p}"))),
            Ok(Err(e)) => return Some(fail_at("good-operation-failed", "finish", format!("generation {gen_no}: into_inner failed: {e}"))),
            Ok(Ok(b)) => b,
        };
        model.durable.append(&mut model.pending);
        model.header = Hdr::Yes;
        // the length of a compressed file depends on the hash order in which the library encodes
        // multi-entry maps, which no seam controls: keep it out of the event log
        if case.codec == CodecSpec::Null {
            ctx.ev_u(disk.len() as u64);
        }
        ctx.ev_u(model.durable.len() as u64);
        let after = if generation.finish == Finish::Drop { "drop" } else { "into_inner" };
        if let Some(f) = check_file(&disk, &model, &env, true, after, gen_no) {
            return Some(f);
        }
        last2 = (last2.1, after);
    }
    None
}

/// A sink that survives its writer (so that a real `drop(writer)` can be observed) and that can be
/// cleared by `Writer::reset`.
#[derive(Clone, Default)]
struct SharedSink(Rc<RefCell<Vec<u8>>>);

impl SharedSink {
    fn with(data: Vec<u8>) -> Self {
        SharedSink(Rc::new(RefCell::new(data)))
    }
    fn len(&self) -> usize {
        self.0.borrow().len()
    }
    fn snapshot(&self) -> Vec<u8> {
        self.0.borrow().clone()
    }
}

impl std::io::Write for SharedSink {
    fn write(&mut self, buf: &[u8]) -> std::io::Result<usize> {
        self.0.borrow_mut().extend_from_slice(buf);
        Ok(buf.len())
    }
    fn flush(&mut self) -> std::io::Result<()> {
        Ok(())
    }
}

impl apache_avro::Clearable for SharedSink {
    fn clear(&mut self) {
        self.0.borrow_mut().clear();
    }
}

pub struct C03;

fn minimal_schema() -> RS {
    RS::Record {
        full: "Msg".into(),
        style: NameStyle::Inherit,
        fields: vec![("lead".into(), RS::Long), ("opt".into(), RS::Union(vec![RS::Null, RS::String]))],
    }
}

fn has_nullable_tail(rs: &RS) -> bool {
    matches!(rs, RS::Record { fields, .. } if fields.len() >= 2 && matches!(fields.last(), Some((_, RS::Union(bs))) if matches!(bs.first(), Some(RS::Null))))
}

impl Property for C03 {
    type Case = Case;
    fn id(&self) -> &'static str {
        "C03"
    }
    fn level(&self) -> &'static str {
        "exploration"
    }
    fn rule(&self) -> String {
        "Seeded (configuration x operation history): schema (recursive generator or serde corpus type, a third of the latter with the \
         record fields in another order than the Rust type), codec (all six, with levels), \
         block_size in {0, 1, ~1 value, ~3 values, 16000}, map/array target block size, 0-2 user metadata entries (keys also around the reserved avro. namespace); 1-3 writer generations \
         (fresh writer, then append_to on the surviving bytes with read_marker's marker) of 1-10 operations from {append_value, \
         append_value_ref, unvalidated_append_value(_ref), append_ser, extend, extend_from_slice, extend_ser, flush, add_user_metadata, \
         reset, and four kinds of failing append}, each generation finished by into_inner or by a real drop. One evaluation = one \
         operation applied to the real Writer and to the FileModel; after every flush/extend (durability point), after every failing \
         operation, at sampled points in between (prefix invariant) and after every finish the sink bytes are read back with the \
         library Reader through a chunking/EINTR source and parsed by the reference parser. distinct_nontrivial counts distinct \
         abstract writer states (header state, pending count class, generation, codec kind, last operation kind, its outcome) plus \
         distinct operation-kind trigrams."
            .into()
    }
    fn assumptions(&self) -> Vec<String> {
        vec![
            "the sink is perfect (short writes and sink errors are C13's dimension)".into(),
            "whether a failed append already pushed the header out is not judged; only that it leaves no value, no partial bytes and no metadata change".into(),
            "unvalidated appends are only issued with conforming values (the API documents corruption otherwise)".into(),
        ]
    }
    fn components(&self) -> J {
        json!({"real": ["apache_avro Writer (all append/extend/flush/reset/finish paths, Drop)", "apache_avro Reader + ReaderDeser", "codec crates", "read_marker"],
               "simulated": ["operation order incl. failing operations, drop ('crash' with only flush-on-drop) and append_to ('restart')", "sync markers drawn through hook H3", "SimSource chunking/EINTR on read-back"],
               "reference": ["FileModel (durable/pending value lists, metadata, header state)", "refimpl container parser"]})
    }
    fn runs(&self, tier: Tier) -> u64 {
        match tier {
            Tier::Quick => 80_000,
            Tier::Thorough => 8_000_000,
        }
    }
    fn required_probes(&self) -> Vec<&'static str> {
        vec![
            "probe.size_threshold_flush",
            "probe.failed_append_with_pending_values",
            "probe.drop_with_pending_values",
            "probe.reopen_after_failed_append",
            "probe.block_size_zero",
            "probe.block_with_object_count_beyond_allocation_limit",
        ]
    }

    fn generate(&self, rng: &mut Rng, _run: u64, _tier: Tier) -> Option<Case> {
        let mut wr = rng.fork("workload");
        let corpus_id = if wr.chance(2, 5) { Some(*wr.pick(&corpus::IDS)) } else { None };
        let rs = if corpus_id.is_none() {
            let inner = gen_schema(&mut wr, 2, true).root;
            Some(if wr.chance(1, 2) {
                RS::Record {
                    full: "Msg".into(),
                    style: NameStyle::Inherit,
                    fields: vec![("lead".into(), RS::Long), ("body".into(), inner), ("opt".into(), RS::Union(vec![RS::Null, RS::String]))],
                }
            } else {
                inner
            })
        } else {
            None
        };
        let parsed = match &rs {
            Some(rs) => Some(parse_rs(rs)?),
            None => None,
        };
        let mut gen_val = |wr: &mut Rng| -> Val {
            match (&rs, &parsed, corpus_id) {
                (Some(rs), Some(p), _) => {
                    let mut vg = ValueGen::new(&p.defs);
                    vg.max_blob = *wr.pick(&[6usize, 30, 700]);
                    Val::R(vg.gen(wr, rs, 0))
                }
                (_, _, Some(id)) => Val::C(with_corpus!(id, T => serde_json::to_value(T::gen(wr)).unwrap())),
                _ => unreachable!(),
            }
        };
        // approximate encoded size of one value
        let approx = match (&rs, &parsed) {
            (Some(rs), Some(p)) => match gen_val(&mut wr) {
                Val::R(v) => refimpl::encode_vec(&v, rs, &p.defs).len(),
                _ => 10,
            },
            _ => 14,
        }
        .max(1);
        let block_size = *wr.pick(&[0usize, 1, approx, approx * 3 + 1, 16000, 16000]);
        let ngens = *wr.pick(&[1usize, 1, 2, 2, 3]);
        // swarm: per-run operation weights
        let weights: Vec<u64> = (0..10).map(|_| wr.below(4)).collect();
        let total: u64 = weights.iter().sum::<u64>().max(1);
        let nullable_tail = rs.as_ref().is_some_and(has_nullable_tail);
        let mut gens = vec![];
        let mut budget = 25usize;
        for g in 0..ngens {
            let n = (wr.range(1, 10) as usize).min(budget.max(1));
            budget = budget.saturating_sub(n);
            let mut ops = vec![];
            while ops.len() < n {
                let mut pick = wr.below(total);
                let mut which = 0;
                for (i, w) in weights.iter().enumerate() {
                    if pick < *w {
                        which = i;
                        break;
                    }
                    pick -= w;
                }
                let op = match which {
                    0 | 1 => {
                        let how = if corpus_id.is_some() { *wr.pick(&[0u8, 1, 4, 4, 2]) } else { *wr.pick(&[0u8, 1, 1, 2, 3]) };
                        Op::Append { how, v: gen_val(&mut wr) }
                    }
                    2 => {
                        let k = wr.range(0, 3) as usize;
                        let how = if corpus_id.is_some() { *wr.pick(&[0u8, 1, 2, 2]) } else { *wr.pick(&[0u8, 1]) };
                        Op::Extend { how, vs: (0..k).map(|_| gen_val(&mut wr)).collect() }
                    }
                    3 => Op::Flush,
                    4 => {
                        let key = if wr.chance(1, 8) {
                            "avro.custom".to_string()
                        } else if wr.chance(1, 4) {
                            // around the reserved "avro." namespace, but outside it
                            wr.pick(&["avro", "avro_version", "avroschema", "avro-codec", "Avro.codec", "my.avro.schema", "", "a"]).to_string()
                        } else {
                            format!("user.{}", wr.below(3))
                        };
                        let n = wr.usize_below(5);
                        Op::AddMeta(key, wr.bytes(n))
                    }
                    5 => {
                        if wr.chance(1, 3) {
                            Op::Reset
                        } else {
                            Op::Flush
                        }
                    }
                    6 => Op::FailWrongKind,
                    7 => {
                        if nullable_tail {
                            Op::FailMissingNullable(gen_val(&mut wr))
                        } else if corpus_id.is_some() {
                            Op::FailSerTwin(wr.next_u64())
                        } else {
                            Op::FailWrongKind
                        }
                    }
                    8 => {
                        if corpus_id.is_some() {
                            Op::FailSerTwin(wr.next_u64())
                        } else {
                            Op::FailExtendFirstBad(vec![gen_val(&mut wr)])
                        }
                    }
                    _ => Op::Append { how: 1, v: gen_val(&mut wr) },
                };
                let failing = op.is_fail();
                ops.push(op);
                // keep the distance between a failing operation and a durability point short
                if failing && wr.chance(1, 2) && ops.len() < n {
                    ops.push(if wr.chance(1, 2) { Op::Flush } else { Op::Append { how: 1, v: gen_val(&mut wr) } });
                }
            }
            let _ = g;
            gens.push(Generation { ops, finish: if wr.chance(1, 2) { Finish::IntoInner } else { Finish::Drop } });
        }
        // one case in 25 (untyped subjects with a small value): one block of very many values
        let mut block_size = block_size;
        if let (Some(rs), Some(p)) = (&rs, &parsed) {
            let mut mr = rng.fork("many");
            if mr.chance(1, 25) {
                if let Val::R(v) = gen_val(&mut mr) {
                    if refimpl::encode_vec(&v, rs, &p.defs).len() <= 16 {
                        let g = mr.usize_below(gens.len());
                        let at = mr.usize_below(gens[g].ops.len() + 1);
                        gens[g].ops.insert(at, Op::Extend { how: mr.below(2) as u8, vs: vec![Val::R(v); MANY] });
                        block_size = 400_000;
                    }
                }
            }
        }
        let nmeta = *wr.pick(&[0usize, 0, 1, 2]);
        Some(Case {
            subject: match (rs, corpus_id) {
                (Some(rs), _) => Subject::Generic(rs),
                (None, Some(id)) => Subject::Corpus(id.to_string()),
                _ => unreachable!(),
            },
            codec: CodecSpec::gen(&mut wr, true),
            block_size,
            mabs: *wr.pick(&[None, None, Some(1), Some(16)]),
            meta: (0..nmeta).map(|i| (format!("init.{i}"), wr.bytes(3))).collect(),
            marker: crate::common::marker_from(&mut wr),
            gens,
            salt: wr.next_u64(),
            perm: { let mut pr = rng.fork("perm"); if pr.chance(1, 3) { pr.next_u64() | 1 } else { 0 } },
        })
    }

    fn execute(&self, case: &Case, ctx: &mut Ctx) -> Option<Failure> {
        run_case(case, ctx)
    }

    fn shrink(&self, case: &Case, _failure: &Failure) -> Vec<Case> {
        let mut out = vec![];
        // drop generations from the end, then from the front (merging is not meaningful)
        if case.gens.len() > 1 {
            let mut c = case.clone();
            c.gens.pop();
            out.push(c);
            let mut c = case.clone();
            c.gens.remove(0);
            out.push(c);
        }
        for g in 0..case.gens.len() {
            let n = case.gens[g].ops.len();
            // halves first, then single operations
            if n > 3 {
                let mut c = case.clone();
                c.gens[g].ops.truncate(n / 2);
                out.push(c);
                let mut c = case.clone();
                c.gens[g].ops.drain(0..n / 2);
                out.push(c);
            }
            for i in (0..n).rev() {
                let mut c = case.clone();
                c.gens[g].ops.remove(i);
                out.push(c);
            }
            if case.gens[g].finish == Finish::Drop {
                let mut c = case.clone();
                c.gens[g].finish = Finish::IntoInner;
                out.push(c);
            }
            // shrink extends
            for i in 0..n {
                if let Op::Extend { how, vs } = &case.gens[g].ops[i] {
                    if vs.len() > 1 {
                        let mut c = case.clone();
                        c.gens[g].ops[i] = Op::Extend { how: *how, vs: vs[..1].to_vec() };
                        out.push(c);
                    }
                }
            }
        }
        if case.codec != CodecSpec::Null {
            let mut c = case.clone();
            c.codec = CodecSpec::Null;
            out.push(c);
        }
        if case.block_size != 16000 {
            let mut c = case.clone();
            c.block_size = 16000;
            out.push(c);
        }
        if !case.meta.is_empty() {
            let mut c = case.clone();
            c.meta.clear();
            out.push(c);
        }
        if case.mabs.is_some() {
            let mut c = case.clone();
            c.mabs = None;
            out.push(c);
        }
        if let Subject::Generic(rs) = &case.subject {
            let min = minimal_schema();
            if *rs != min {
                let mut c = case.clone();
                c.subject = Subject::Generic(min);
                let mut k = 0i64;
                let mut sv = || {
                    k += 1;
                    Val::R(RV::Record(vec![RV::Long(k * 1000), RV::Union(1, Box::new(RV::Str(format!("v{k}"))))]))
                };
                for g in &mut c.gens {
                    for op in &mut g.ops {
                        match op {
                            Op::Append { v, .. } => *v = sv(),
                            Op::Extend { vs, .. } => vs.iter_mut().for_each(|v| *v = sv()),
                            Op::FailMissingNullable(v) => *v = sv(),
                            Op::FailExtendFirstBad(vs) => vs.iter_mut().for_each(|v| *v = sv()),
                            _ => {}
                        }
                    }
                }
                out.push(c);
            }
        }
        out
    }

    fn sample(&self, case: &Case) -> J {
        json!({
            "subject": match &case.subject { Subject::Generic(rs) => to_json(rs), Subject::Corpus(id) => json!(format!("corpus type {id}")) },
            "codec": case.codec, "block_size": case.block_size, "user_metadata_entries": case.meta.len(),
            "generations": case.gens.iter().map(|g| json!({"ops": g.ops.iter().map(|o| o.kind()).collect::<Vec<_>>(), "finish": g.finish})).collect::<Vec<_>>(),
        })
    }
}
