//! A self-describing sink type for the schema-aware deserializer: accepts whatever the
//! deserializer offers through `deserialize_any`, counting visitor callbacks (the step budget of
//! C05) in a thread-local.

use serde::de::{Deserialize, Deserializer, EnumAccess, MapAccess, SeqAccess, VariantAccess, Visitor};
use std::cell::Cell;
use std::fmt;

thread_local! {
    pub static VISITS: Cell<u64> = const { Cell::new(0) };
    pub static VISIT_BUDGET: Cell<u64> = const { Cell::new(u64::MAX) };
}

pub fn reset_visits(budget: u64) {
    VISITS.with(|v| v.set(0));
    VISIT_BUDGET.with(|v| v.set(budget));
}

pub fn visits() -> u64 {
    VISITS.with(|v| v.get())
}

fn tick<E: serde::de::Error>() -> Result<(), E> {
    let n = VISITS.with(|v| {
        let n = v.get() + 1;
        v.set(n);
        n
    });
    if n > VISIT_BUDGET.with(|b| b.get()) {
        return Err(E::custom("avrosim: visit budget exhausted"));
    }
    Ok(())
}

#[derive(Clone, Debug, PartialEq)]
pub enum AnyValue {
    Unit,
    None,
    Some(Box<AnyValue>),
    Bool(bool),
    I64(i64),
    U64(u64),
    I128(i128),
    F32(u32),
    F64(u64),
    Char(char),
    Str(String),
    Bytes(Vec<u8>),
    Seq(Vec<AnyValue>),
    Map(Vec<(AnyValue, AnyValue)>),
    Enum(Box<AnyValue>),
}

struct AnyVisitor;

impl<'de> Visitor<'de> for AnyVisitor {
    type Value = AnyValue;

    fn expecting(&self, f: &mut fmt::Formatter) -> fmt::Result {
        f.write_str("anything")
    }
    fn visit_bool<E: serde::de::Error>(self, v: bool) -> Result<AnyValue, E> {
        tick()?;
        Ok(AnyValue::Bool(v))
    }
    fn visit_i64<E: serde::de::Error>(self, v: i64) -> Result<AnyValue, E> {
        tick()?;
        Ok(AnyValue::I64(v))
    }
    fn visit_u64<E: serde::de::Error>(self, v: u64) -> Result<AnyValue, E> {
        tick()?;
        Ok(AnyValue::U64(v))
    }
    fn visit_i128<E: serde::de::Error>(self, v: i128) -> Result<AnyValue, E> {
        tick()?;
        Ok(AnyValue::I128(v))
    }
    fn visit_u128<E: serde::de::Error>(self, v: u128) -> Result<AnyValue, E> {
        tick()?;
        Ok(AnyValue::I128(v as i128))
    }
    fn visit_f32<E: serde::de::Error>(self, v: f32) -> Result<AnyValue, E> {
        tick()?;
        Ok(AnyValue::F32(v.to_bits()))
    }
    fn visit_f64<E: serde::de::Error>(self, v: f64) -> Result<AnyValue, E> {
        tick()?;
        Ok(AnyValue::F64(v.to_bits()))
    }
    fn visit_char<E: serde::de::Error>(self, v: char) -> Result<AnyValue, E> {
        tick()?;
        Ok(AnyValue::Char(v))
    }
    fn visit_str<E: serde::de::Error>(self, v: &str) -> Result<AnyValue, E> {
        tick()?;
        Ok(AnyValue::Str(v.to_string()))
    }
    fn visit_string<E: serde::de::Error>(self, v: String) -> Result<AnyValue, E> {
        tick()?;
        Ok(AnyValue::Str(v))
    }
    fn visit_bytes<E: serde::de::Error>(self, v: &[u8]) -> Result<AnyValue, E> {
        tick()?;
        Ok(AnyValue::Bytes(v.to_vec()))
    }
    fn visit_byte_buf<E: serde::de::Error>(self, v: Vec<u8>) -> Result<AnyValue, E> {
        tick()?;
        Ok(AnyValue::Bytes(v))
    }
    fn visit_none<E: serde::de::Error>(self) -> Result<AnyValue, E> {
        tick()?;
        Ok(AnyValue::None)
    }
    fn visit_some<D: Deserializer<'de>>(self, d: D) -> Result<AnyValue, D::Error> {
        tick()?;
        Ok(AnyValue::Some(Box::new(AnyValue::deserialize(d)?)))
    }
    fn visit_unit<E: serde::de::Error>(self) -> Result<AnyValue, E> {
        tick()?;
        Ok(AnyValue::Unit)
    }
    fn visit_newtype_struct<D: Deserializer<'de>>(self, d: D) -> Result<AnyValue, D::Error> {
        tick()?;
        AnyValue::deserialize(d)
    }
    fn visit_seq<A: SeqAccess<'de>>(self, mut seq: A) -> Result<AnyValue, A::Error> {
        tick()?;
        // never trust size_hint for allocation
        let mut v = Vec::new();
        while let Some(x) = seq.next_element::<AnyValue>()? {
            tick()?;
            v.push(x);
        }
        Ok(AnyValue::Seq(v))
    }
    fn visit_map<A: MapAccess<'de>>(self, mut map: A) -> Result<AnyValue, A::Error> {
        tick()?;
        let mut v = Vec::new();
        while let Some(k) = map.next_key::<AnyValue>()? {
            tick()?;
            let x = map.next_value::<AnyValue>()?;
            v.push((k, x));
        }
        Ok(AnyValue::Map(v))
    }
    fn visit_enum<A: EnumAccess<'de>>(self, data: A) -> Result<AnyValue, A::Error> {
        tick()?;
        let (variant, access) = data.variant::<AnyValue>()?;
        // the deserializer's deserialize_any only produces unit variants for Avro enums
        access.unit_variant()?;
        Ok(AnyValue::Enum(Box::new(variant)))
    }
}

impl<'de> Deserialize<'de> for AnyValue {
    fn deserialize<D: Deserializer<'de>>(d: D) -> Result<AnyValue, D::Error> {
        d.deserialize_any(AnyVisitor)
    }
}

/// Like `AnyValue` but retains nothing: the harness must not be the one that allocates for a
/// count declared in the data.
#[derive(Clone, Copy, Debug, PartialEq)]
pub struct Discard;

struct DiscardVisitor;

impl<'de> Visitor<'de> for DiscardVisitor {
    type Value = Discard;

    fn expecting(&self, f: &mut fmt::Formatter) -> fmt::Result {
        f.write_str("anything")
    }
    fn visit_bool<E: serde::de::Error>(self, _: bool) -> Result<Discard, E> {
        tick()?;
        Ok(Discard)
    }
    fn visit_i64<E: serde::de::Error>(self, _: i64) -> Result<Discard, E> {
        tick()?;
        Ok(Discard)
    }
    fn visit_u64<E: serde::de::Error>(self, _: u64) -> Result<Discard, E> {
        tick()?;
        Ok(Discard)
    }
    fn visit_i128<E: serde::de::Error>(self, _: i128) -> Result<Discard, E> {
        tick()?;
        Ok(Discard)
    }
    fn visit_u128<E: serde::de::Error>(self, _: u128) -> Result<Discard, E> {
        tick()?;
        Ok(Discard)
    }
    fn visit_f32<E: serde::de::Error>(self, _: f32) -> Result<Discard, E> {
        tick()?;
        Ok(Discard)
    }
    fn visit_f64<E: serde::de::Error>(self, _: f64) -> Result<Discard, E> {
        tick()?;
        Ok(Discard)
    }
    fn visit_char<E: serde::de::Error>(self, _: char) -> Result<Discard, E> {
        tick()?;
        Ok(Discard)
    }
    fn visit_str<E: serde::de::Error>(self, _: &str) -> Result<Discard, E> {
        tick()?;
        Ok(Discard)
    }
    fn visit_string<E: serde::de::Error>(self, _: String) -> Result<Discard, E> {
        tick()?;
        Ok(Discard)
    }
    fn visit_bytes<E: serde::de::Error>(self, _: &[u8]) -> Result<Discard, E> {
        tick()?;
        Ok(Discard)
    }
    fn visit_byte_buf<E: serde::de::Error>(self, _: Vec<u8>) -> Result<Discard, E> {
        tick()?;
        Ok(Discard)
    }
    fn visit_none<E: serde::de::Error>(self) -> Result<Discard, E> {
        tick()?;
        Ok(Discard)
    }
    fn visit_some<D: Deserializer<'de>>(self, d: D) -> Result<Discard, D::Error> {
        tick()?;
        Discard::deserialize(d)
    }
    fn visit_unit<E: serde::de::Error>(self) -> Result<Discard, E> {
        tick()?;
        Ok(Discard)
    }
    fn visit_newtype_struct<D: Deserializer<'de>>(self, d: D) -> Result<Discard, D::Error> {
        tick()?;
        Discard::deserialize(d)
    }
    fn visit_seq<A: SeqAccess<'de>>(self, mut seq: A) -> Result<Discard, A::Error> {
        tick()?;
        while seq.next_element::<Discard>()?.is_some() {
            tick()?;
        }
        Ok(Discard)
    }
    fn visit_map<A: MapAccess<'de>>(self, mut map: A) -> Result<Discard, A::Error> {
        tick()?;
        while map.next_key::<Discard>()?.is_some() {
            tick()?;
            map.next_value::<Discard>()?;
        }
        Ok(Discard)
    }
    fn visit_enum<A: EnumAccess<'de>>(self, data: A) -> Result<Discard, A::Error> {
        tick()?;
        let (_, access) = data.variant::<Discard>()?;
        access.unit_variant()?;
        Ok(Discard)
    }
}

impl<'de> Deserialize<'de> for Discard {
    fn deserialize<D: Deserializer<'de>>(d: D) -> Result<Discard, D::Error> {
        d.deserialize_any(DiscardVisitor)
    }
}

pub fn budget_exhausted() -> bool {
    VISITS.with(|v| v.get()) > VISIT_BUDGET.with(|b| b.get())
}
