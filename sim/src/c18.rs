//! C18 - single-object messages carry the spec header and reject foreign messages.
//!
//! One case = one writer instance and a history of messages (good values of varying length,
//! validation-rejected values, values that validate but fail inside the encoder, failing sinks),
//! followed by the exhaustive header damage set on one good message.

use crate::anyvalue::AnyValue;
use crate::common::parse_rs;
use crate::corpus::{self, Corp};
use crate::gen::{NameStyle, RS, RV, ValueGen, avro_eq, gen_schema, to_avro, to_json, wrong_kind_value};
use crate::harness::{Ctx, Failure, Property, Tier, guarded};
use crate::refimpl;
use crate::rng::Rng;
use crate::seams::{Accept, Chunk, ReadFault, ReadFaultKind, SimSink, SimSource, SinkPlan, SourcePlan, WriteFault, WriteFaultKind};
use crate::with_corpus;
use apache_avro::types::Value;
use apache_avro::writer::datum::GenericDatumWriter;
use apache_avro::{
    AvroSchema, GenericSingleObjectReader, GenericSingleObjectWriter, Schema, SpecificSingleObjectReader,
    SpecificSingleObjectWriter,
};
use serde::{Deserialize, Serialize};
use serde_json::{Value as J, json};

#[derive(Clone, Debug, Serialize, Deserialize)]
pub enum GMsg {
    Good(RV),
    /// rejected by validation
    WrongKind,
    /// root record value with its last (nullable) field missing: validates, fails inside the encoder
    MissingNullable(RV),
    /// good value, failing / short sink
    Sink(RV, SinkPlan),
}

#[derive(Clone, Debug, Serialize, Deserialize)]
pub enum SMsg {
    Good(J),
    Sink(J, SinkPlan),
}

#[derive(Clone, Debug, Serialize, Deserialize)]
pub enum Subject {
    Generic { schema: RS, cap: usize, history: Vec<GMsg> },
    /// method: 0 write_ref, 1 write, 2 write_value
    /// `perm` != 0: the writer is built with `builder().resolved(schema)` where `schema` is the
    /// type's schema with its record fields in another order (another canonical form, so another
    /// fingerprint than `T::get_schema()`'s)
    Specific { type_id: String, method: u8, history: Vec<SMsg>, #[serde(default)] perm: u64 },
}

#[derive(Clone, Debug, Serialize, Deserialize, PartialEq)]
pub enum HeaderDamage {
    FlipBit(usize),
    Truncate(usize),
    OtherSchema,
}

#[derive(Clone, Debug, Serialize, Deserialize)]
pub struct Case {
    pub subject: Subject,
    /// run the header damage set (on the first good message)
    pub header_damage: bool,
    pub only_damage: Option<HeaderDamage>,
}

fn expected_header(schema: &Schema) -> [u8; 10] {
    refimpl::single_object_header(&schema.canonical_form())
}

fn len_class(n: usize) -> &'static str {
    match n {
        0 => "0",
        1..=10 => "short",
        11..=100 => "mid",
        _ => "long",
    }
}

struct Sent {
    msg: Vec<u8>,
    value: Value,
}

fn check_roundtrip_generic(schema: &Schema, sent: &Sent, idx: usize) -> Option<Failure> {
    let rd = match GenericSingleObjectReader::builder().schema(schema.clone()).build() {
        Ok(r) => r,
        Err(e) => return Some(Failure::new("reader-build", "C18 reader-build".to_string(), e.to_string())),
    };
    for plan in [SourcePlan::perfect(), SourcePlan { chunk: Chunk::Const(1), faults: vec![], eintr_every: 3 }] {
        let mut src = SimSource::new(&sent.msg, plan.clone());
        match guarded(|| rd.read_value(&mut src)) {
            Ok(Ok(v)) if avro_eq(&v, &sent.value) && src.pos == sent.msg.len() => {}
            other => {
                return Some(Failure::new(
                    "message-does-not-roundtrip",
                    "C18 message-does-not-roundtrip reader=read_value".to_string(),
                    format!(
                        "message #{idx} ({} bytes), taken alone, does not read back as the written value: {:?} (consumed {})",
                        sent.msg.len(),
                        other.map(|r| r.map(|v| crate::gen::describe_value(&v)).map_err(|e| e.to_string())),
                        src.pos
                    ),
                ));
            }
        }
        let mut src = SimSource::new(&sent.msg, plan);
        match guarded(|| rd.read_deser::<AnyValue>(&mut src)) {
            Ok(Ok(_)) if src.pos == sent.msg.len() => {}
            other => {
                return Some(Failure::new(
                    "message-does-not-roundtrip",
                    "C18 message-does-not-roundtrip reader=read_deser".to_string(),
                    format!(
                        "message #{idx}: read_deser gave {:?} (consumed {} of {})",
                        other.map(|r| r.map(|_| "ok").map_err(|e| e.to_string())),
                        src.pos,
                        sent.msg.len()
                    ),
                ));
            }
        }
    }
    None
}

fn check_roundtrip_specific<T: Corp>(sent: &Sent, idx: usize) -> Option<Failure>
where
    T: From<Value>,
{
    let rd = SpecificSingleObjectReader::<T>::new().expect("specific reader");
    let mut src = SimSource::new(&sent.msg, SourcePlan { chunk: Chunk::Const(2), faults: vec![], eintr_every: 4 });
    match guarded(|| rd.read(&mut src)) {
        Ok(Ok(t)) if avro_eq(&t.to_value(), &sent.value) && src.pos == sent.msg.len() => {}
        other => {
            return Some(Failure::new(
                "message-does-not-roundtrip",
                "C18 message-does-not-roundtrip reader=specific.read".to_string(),
                format!("message #{idx}: SpecificSingleObjectReader::read gave {:?}", other.map(|r| r.map(|t| format!("{t:?}")).map_err(|e| e.to_string()))),
            ));
        }
    }
    let mut src = SimSource::new(&sent.msg, SourcePlan::perfect());
    match guarded(|| rd.read_from_value(&mut src)) {
        Ok(Ok(t)) if avro_eq(&t.to_value(), &sent.value) && src.pos == sent.msg.len() => {}
        other => {
            return Some(Failure::new(
                "message-does-not-roundtrip",
                "C18 message-does-not-roundtrip reader=specific.read_from_value".to_string(),
                format!("message #{idx}: read_from_value gave {:?}", other.map(|r| r.map(|t| format!("{t:?}")).map_err(|e| e.to_string()))),
            ));
        }
    }
    None
}

/// All messages of a history, one behind the other on ONE source, read back one after the other:
/// each reader must hand out every value in turn and end exactly at the end of the stream (a
/// reader that reads ahead, or a message that is not exactly header + datum, displaces the next).
fn check_stream_generic(schema: &Schema, all: &[Sent]) -> Option<Failure> {
    if all.len() < 2 {
        return None;
    }
    let stream: Vec<u8> = all.iter().flat_map(|s| s.msg.iter().copied()).collect();
    let rd = GenericSingleObjectReader::builder().schema(schema.clone()).build().ok()?;
    for (which, plan) in [("read_value", SourcePlan::perfect()), ("read_value", SourcePlan { chunk: Chunk::Const(3), faults: vec![], eintr_every: 4 })] {
        let mut src = SimSource::new(&stream, plan);
        for (i, sent) in all.iter().enumerate() {
            match guarded(|| rd.read_value(&mut src)) {
                Ok(Ok(v)) if avro_eq(&v, &sent.value) => {}
                other => {
                    return Some(Failure::new(
                        "stream-does-not-roundtrip",
                        format!("C18 stream-does-not-roundtrip reader={which}"),
                        format!("message #{i} of {} read one after the other from one source: {:?} (position {} of {})", all.len(), other.map(|r| r.map(|v| crate::gen::describe_value(&v)).map_err(|e| e.to_string())), src.pos, stream.len()),
                    ));
                }
            }
        }
        if src.pos != stream.len() {
            return Some(Failure::new("stream-does-not-roundtrip", format!("C18 stream-does-not-roundtrip reader={which}"), format!("{} of {} bytes consumed after the last message", src.pos, stream.len())));
        }
    }
    let mut src = SimSource::new(&stream, SourcePlan::perfect());
    for (i, _) in all.iter().enumerate() {
        match guarded(|| rd.read_deser::<AnyValue>(&mut src)) {
            Ok(Ok(_)) => {}
            other => {
                return Some(Failure::new(
                    "stream-does-not-roundtrip",
                    "C18 stream-does-not-roundtrip reader=read_deser".to_string(),
                    format!("message #{i} of {} read one after the other from one source through read_deser: {:?} (position {} of {})", all.len(), other.map(|r| r.map(|_| "ok").map_err(|e| e.to_string())), src.pos, stream.len()),
                ));
            }
        }
    }
    if src.pos != stream.len() {
        return Some(Failure::new("stream-does-not-roundtrip", "C18 stream-does-not-roundtrip reader=read_deser".to_string(), format!("{} of {} bytes consumed after the last message", src.pos, stream.len())));
    }
    None
}

fn check_stream_specific<T: Corp + From<Value>>(all: &[Sent]) -> Option<Failure> {
    if all.len() < 2 {
        return None;
    }
    let stream: Vec<u8> = all.iter().flat_map(|s| s.msg.iter().copied()).collect();
    let rd = SpecificSingleObjectReader::<T>::new().ok()?;
    let mut src = SimSource::new(&stream, SourcePlan { chunk: Chunk::Const(5), faults: vec![], eintr_every: 0 });
    for (i, sent) in all.iter().enumerate() {
        match guarded(|| rd.read(&mut src)) {
            Ok(Ok(t)) if avro_eq(&t.to_value(), &sent.value) => {}
            other => {
                return Some(Failure::new(
                    "stream-does-not-roundtrip",
                    "C18 stream-does-not-roundtrip reader=specific.read".to_string(),
                    format!("message #{i} of {} read one after the other from one source through the typed reader: {:?} (position {} of {})", all.len(), other.map(|r| r.map(|t| format!("{t:?}")).map_err(|e| e.to_string())), src.pos, stream.len()),
                ));
            }
        }
    }
    if src.pos != stream.len() {
        return Some(Failure::new("stream-does-not-roundtrip", "C18 stream-does-not-roundtrip reader=specific.read".to_string(), format!("{} of {} bytes consumed after the last message", src.pos, stream.len())));
    }
    None
}

fn judge_ok_message(
    header: &[u8; 10],
    datum: &[u8],
    got: &[u8],
    idx: usize,
    wkind: &str,
    prev: &str,
    generic: Option<(&RV, &RS, &crate::gen::Defs)>,
) -> Option<Failure> {
    let mut expected = header.to_vec();
    expected.extend_from_slice(datum);
    if got != expected.as_slice() {
        // map entries are encoded in hash order: accept any order of the same entries
        if let Some((v, s, defs)) = generic {
            if got.len() == expected.len() && got[..10] == header[..] && crate::gen::same_datum(&got[10..], v, s, defs) {
                return None;
            }
        }
        let what = if got.len() >= 10 && got[..10] != header[..] {
            "wrong-header"
        } else if got.len() > expected.len() && got.ends_with(datum) {
            "stale-bytes-before-datum"
        } else {
            "wrong-message-bytes"
        };
        return Some(Failure::new(
            "wrong-message",
            format!("C18 wrong-message kind={what} writer={wkind} after={prev}"),
            format!(
                "call #{idx} returned Ok but its sink holds {} bytes [{}] instead of header+datum = {} bytes [{}]",
                got.len(),
                crate::common::hex(got),
                expected.len(),
                crate::common::hex(&expected)
            ),
        ));
    }
    None
}

fn header_damages() -> Vec<HeaderDamage> {
    let mut v: Vec<HeaderDamage> = (0..80).map(HeaderDamage::FlipBit).collect();
    v.extend((0..10).map(HeaderDamage::Truncate));
    v.push(HeaderDamage::OtherSchema);
    v
}

/// Every reader must reject the damaged message without requesting a byte beyond the header.
fn check_header_damage(schema: &Schema, sent: &Sent, d: &HeaderDamage, typed: Option<&str>, ctx: &mut Ctx) -> Option<Failure> {
    let mut msg = sent.msg.clone();
    let mut limit = msg.len();
    match d {
        HeaderDamage::FlipBit(b) => msg[b / 8] ^= 1 << (b % 8),
        HeaderDamage::Truncate(n) => {
            msg.truncate(*n);
            limit = *n;
        }
        HeaderDamage::OtherSchema => {
            let other = Schema::parse_str(r#"{"type":"record","name":"Other_Foreign","fields":[{"name":"zz","type":"long"}]}"#).unwrap();
            let h = expected_header(&other);
            msg[..10].copy_from_slice(&h);
        }
    }
    let _ = limit;
    let rd = GenericSingleObjectReader::builder().schema(schema.clone()).build().ok()?;
    let dn = match d {
        HeaderDamage::FlipBit(_) => "flip",
        HeaderDamage::Truncate(_) => "truncate",
        HeaderDamage::OtherSchema => "other_schema",
    };
    ctx.agg.count(&format!("fault.header_{dn}"));
    let mut results: Vec<(&str, Result<bool, String>, usize)> = vec![];
    {
        let mut src = SimSource::new(&msg, SourcePlan::perfect());
        let r = guarded(|| rd.read_value(&mut src).is_ok());
        results.push(("read_value", r, src.pos));
        ctx.eval();
    }
    {
        let mut src = SimSource::new(&msg, SourcePlan { chunk: Chunk::Const(1), faults: vec![], eintr_every: 0 });
        let r = guarded(|| rd.read_deser::<AnyValue>(&mut src).is_ok());
        results.push(("read_deser", r, src.pos));
        ctx.eval();
    }
    if let Some(id) = typed {
        with_corpus!(id, T => {
            let srd = SpecificSingleObjectReader::<T>::new().expect("specific reader");
            let mut src = SimSource::new(&msg, SourcePlan::perfect());
            let r = guarded(|| srd.read(&mut src).is_ok());
            results.push(("specific.read", r, src.pos));
            let mut src = SimSource::new(&msg, SourcePlan::perfect());
            let r = guarded(|| srd.read_from_value(&mut src).is_ok());
            results.push(("specific.read_from_value", r, src.pos));
            ctx.eval();
            ctx.eval();
        });
    }
    for (reader, r, pos) in results {
        ctx.agg.state(format!("damage|{dn}|{reader}"));
        match r {
            Err(p) => {
                return Some(Failure::new("panic", format!("C18 panic reader={reader}"), format!("panic on damaged header {d:?}: {p}")));
            }
            Ok(true) => {
                return Some(Failure::new(
                    "foreign-message-accepted",
                    format!("C18 foreign-message-accepted reader={reader} damage={dn}"),
                    format!("header damage {d:?} but {reader} returned Ok [damage={}]", serde_json::to_string(d).unwrap()),
                ));
            }
            Ok(false) => {
                if pos > 10 {
                    return Some(Failure::new(
                        "decoded-before-header-check",
                        format!("C18 decoded-before-header-check reader={reader} damage={dn}"),
                        format!("header damage {d:?}: {reader} consumed {pos} bytes (> 10-byte header) before rejecting [damage={}]", serde_json::to_string(d).unwrap()),
                    ));
                }
            }
        }
    }
    None
}

fn missing_nullable_value(v: &RV, schema: &RS, defs: &crate::gen::Defs) -> Option<Value> {
    if let (RS::Record { fields, .. }, Value::Record(mut fs)) = (schema, to_avro(v, schema, defs)) {
        if fields.len() >= 2 {
            if let Some((_, RS::Union(bs))) = fields.last() {
                if matches!(bs.first(), Some(RS::Null)) {
                    fs.pop();
                    return Some(Value::Record(fs));
                }
            }
        }
    }
    None
}

fn run_generic(schema_rs: &RS, cap: usize, history: &[GMsg], case: &Case, ctx: &mut Ctx) -> Option<Failure> {
    let p = parse_rs(schema_rs)?;
    let header = expected_header(&p.schema);
    let mut w = match GenericSingleObjectWriter::new_with_capacity(&p.schema, cap) {
        Ok(w) => w,
        Err(_) => {
            ctx.agg.count("scenario.setup_rejected");
            return None;
        }
    };
    let mut prev = "start";
    let mut first_good: Option<Sent> = None;
    let mut all_good: Vec<Sent> = vec![];
    for (idx, m) in history.iter().enumerate() {
        ctx.eval();
        let (value, plan, kind): (Value, SinkPlan, &'static str) = match m {
            GMsg::Good(v) => (to_avro(v, schema_rs, &p.defs), SinkPlan::perfect(), "good"),
            GMsg::WrongKind => (wrong_kind_value(schema_rs, &p.defs), SinkPlan::perfect(), "value-fail"),
            GMsg::MissingNullable(v) => match missing_nullable_value(v, schema_rs, &p.defs) {
                Some(x) => (x, SinkPlan::perfect(), "encode-fail"),
                None => continue,
            },
            GMsg::Sink(v, plan) => (to_avro(v, schema_rs, &p.defs), plan.clone(), "sink-fail"),
        };
        let mut sink = SimSink::new(plan);
        let r = guarded(|| w.write_value_ref(&value, &mut sink));
        ctx.steps(sink.write_calls);
        for f in &sink.faults_fired {
            ctx.agg.count(&format!("fault.{f:?}"));
        }
        if sink.short_accepts > 0 {
            ctx.agg.count("fault.short_accept");
        }
        let r = match r {
            // a sink that panics is the caller's fault, not the writer's: it counts as a failed write
            Err(_) if sink.faults_fired.contains(&WriteFaultKind::Panic) => Err(apache_avro::Error::new(apache_avro::error::Details::WriteBytes(std::io::Error::other("sim: the sink panicked")))),
            Err(panic) => return Some(Failure::new("panic", "C18 panic writer=generic".to_string(), format!("call #{idx} panicked: {panic}"))),
            Ok(r) => r,
        };
        ctx.ev(kind);
        ctx.ev_u(r.is_ok() as u64);
        match kind {
            "good" | "sink-fail" => {
                let datum = match m {
                    GMsg::Good(v) | GMsg::Sink(v, _) => refimpl::encode_vec(v, schema_rs, &p.defs),
                    _ => unreachable!(),
                };
                ctx.agg.state(format!("generic|{prev}|{}|{kind}", len_class(datum.len())));
                match &r {
                    Ok(_) => {
                        let rv = match m {
                            GMsg::Good(v) | GMsg::Sink(v, _) => v,
                            _ => unreachable!(),
                        };
                        if let Some(f) = judge_ok_message(&header, &datum, &sink.data, idx, "generic", prev, Some((rv, schema_rs, &p.defs))) {
                            return Some(f);
                        }
                        let sent = Sent { msg: sink.data.clone(), value };
                        if let Some(f) = check_roundtrip_generic(&p.schema, &sent, idx) {
                            return Some(f);
                        }
                        all_good.push(Sent { msg: sent.msg.clone(), value: sent.value.clone() });
                        if first_good.is_none() {
                            first_good = Some(sent);
                        }
                        prev = if datum.len() > 20 { "ok-long" } else { "ok-short" };
                    }
                    Err(e) => {
                        if kind == "good" {
                            return Some(Failure::new(
                                "good-message-rejected",
                                format!("C18 good-message-rejected writer=generic after={prev}"),
                                format!("call #{idx}: a conforming value on a perfect sink was rejected after an earlier {prev}: {e}"),
                            ));
                        }
                        if sink.faults_fired.is_empty() {
                            // short accepts only: an error is acceptable (C13), nothing to add here
                        }
                        ctx.agg.count("probe.sink_failure_on_reused_writer");
                        prev = "sink-fail";
                    }
                }
            }
            _ => {
                ctx.agg.state(format!("generic|{prev}|-|{kind}"));
                if r.is_ok() {
                    // a near-miss value the library accepts is not this property's business;
                    // it only stops being a "failed write" for the history
                    ctx.agg.count("scenario.near_miss_accepted");
                    prev = "ok-short";
                } else {
                    if kind == "encode-fail" {
                        ctx.agg.count("probe.value_failed_inside_encoder");
                    }
                    prev = kind;
                }
            }
        }
    }
    if let Some(f) = check_stream_generic(&p.schema, &all_good) {
        return Some(f);
    }
    if case.header_damage {
        if let Some(sent) = &first_good {
            let ds = match &case.only_damage {
                Some(d) => vec![d.clone()],
                None => header_damages(),
            };
            for d in &ds {
                if let Some(f) = check_header_damage(&p.schema, sent, d, None, ctx) {
                    return Some(f);
                }
            }
        }
    }
    None
}

/// One message through a typed writer for the second generation of `Flat` (same full name, other
/// fields): it must carry the fingerprint of ITS schema, whatever other writers exist in the process.
fn second_generation_message(ctx: &mut Ctx, when: &str) -> Option<Failure> {
    use crate::corpus::gen2;
    let schema = gen2::Flat::get_schema();
    let header = expected_header(&schema);
    let v = gen2::Flat { a: 5, b: "two".into(), c: true, d: 9 };
    let datum = GenericDatumWriter::builder(&schema).build().ok()?.write_ser_to_vec(&v).ok()?;
    let r = guarded(|| -> Result<Vec<u8>, String> {
        let w = SpecificSingleObjectWriter::<gen2::Flat>::new().map_err(|e| e.to_string())?;
        let mut out = vec![];
        w.write_ref(&v, &mut out).map_err(|e| e.to_string())?;
        Ok(out)
    });
    ctx.eval();
    ctx.agg.count("probe.two_generations_of_one_name_in_one_history");
    match r {
        Err(p) => Some(Failure::new("panic", "C18 panic writer=specific.second-generation".to_string(), format!("panic: {p}"))),
        Ok(Err(e)) => Some(Failure::new("good-message-rejected", format!("C18 good-message-rejected writer=specific.second-generation after={when}"), e)),
        Ok(Ok(msg)) => {
            if let Some(f) = judge_ok_message(&header, &datum, &msg, 0, "specific.second-generation", when, None) {
                return Some(f);
            }
            let rd = GenericSingleObjectReader::builder().schema(schema.clone()).build().ok()?;
            match rd.read_value(&mut &msg[..]) {
                Ok(_) => None,
                Err(e) => Some(Failure::new(
                    "own-message-rejected",
                    "C18 own-message-rejected writer=specific.second-generation".to_string(),
                    format!("the message written for the second generation of Flat is rejected by the reader for that schema: {e}"),
                )),
            }
        }
    }
}

/// A typed writer built for another schema than `T::get_schema()` (same fields, other order): every
/// message must carry the fingerprint of the schema the writer was given, followed by the datum
/// in that schema's field order, and the reader for that schema must accept it.
fn run_specific_other_schema<T: Corp>(perm: u64, history: &[SMsg], ctx: &mut Ctx) -> Option<Failure> {
    let schema = corpus::permuted_schema(&T::get_schema(), perm);
    if schema.canonical_form() == T::get_schema().canonical_form() {
        return None;
    }
    ctx.agg.count("probe.typed_writer_built_for_another_schema");
    let header = expected_header(&schema);
    let w = match guarded(|| SpecificSingleObjectWriter::<T>::builder().resolved(schema.clone()).map(|b| b.build())) {
        Ok(Ok(w)) => w,
        _ => return None,
    };
    let dw = GenericDatumWriter::builder(&schema).build().ok()?;
    let rd = GenericSingleObjectReader::builder().schema(schema.clone()).build().ok()?;
    for (idx, m) in history.iter().enumerate() {
        let j = match m {
            SMsg::Good(j) | SMsg::Sink(j, _) => j,
        };
        let t: T = serde_json::from_value(j.clone()).expect("corpus value");
        let Ok(datum) = dw.write_ser_to_vec(&t) else { continue };
        let mut out = vec![];
        ctx.eval();
        match guarded(|| w.write_ref(&t, &mut out)) {
            Err(p) => return Some(Failure::new("panic", "C18 panic writer=specific.other-schema".to_string(), format!("call #{idx} panicked: {p}"))),
            Ok(Err(_)) => continue,
            Ok(Ok(_)) => {}
        }
        if let Some(f) = judge_ok_message(&header, &datum, &out, idx, "specific.other-schema", "start", None) {
            return Some(f);
        }
        if let Ok(Err(e)) = guarded(|| rd.read_value(&mut &out[..])) {
            return Some(Failure::new(
                "own-message-rejected",
                "C18 own-message-rejected writer=specific.other-schema".to_string(),
                format!("message #{idx} of a typed writer built for another schema is rejected by the reader for that schema: {e}"),
            ));
        }
    }
    None
}

fn run_specific<T: Corp + From<Value> + Into<Value>>(method: u8, history: &[SMsg], case: &Case, ctx: &mut Ctx) -> Option<Failure> {
    let twin = T::ID == "Flat";
    if twin && history.len() % 2 == 0 {
        if let Some(f) = second_generation_message(ctx, "start") {
            return Some(f);
        }
    }
    if twin && history.len() % 2 == 1 {
        // the first-generation writer exists (and has written) before the second one is created
        let r = run_specific_inner::<T>(method, history, case, ctx);
        if r.is_some() {
            return r;
        }
        return second_generation_message(ctx, "first-generation-history");
    }
    run_specific_inner::<T>(method, history, case, ctx)
}

fn run_specific_inner<T: Corp + From<Value> + Into<Value>>(method: u8, history: &[SMsg], case: &Case, ctx: &mut Ctx) -> Option<Failure> {
    let schema = T::get_schema();
    let header = expected_header(&schema);
    let w = SpecificSingleObjectWriter::<T>::new().expect("specific writer");
    let dw = GenericDatumWriter::builder(&schema).build().expect("datum writer");
    let mut prev = "start";
    let mut first_good: Option<Sent> = None;
    let mut all_good: Vec<Sent> = vec![];
    let mname = ["write_ref", "write", "write_value"][method as usize % 3];
    for (idx, m) in history.iter().enumerate() {
        ctx.eval();
        let (j, plan, kind) = match m {
            SMsg::Good(j) => (j, SinkPlan::perfect(), "good"),
            SMsg::Sink(j, p) => (j, p.clone(), "sink-fail"),
        };
        let t: T = serde_json::from_value(j.clone()).expect("corpus value");
        let value = t.to_value();
        let datum = dw.write_value_to_vec(value.clone()).expect("datum");
        let mut sink = SimSink::new(plan);
        let r = guarded(|| match method % 3 {
            0 => w.write_ref(&t, &mut sink),
            1 => w.write(t.clone(), &mut sink),
            _ => w.write_value(t.clone(), &mut sink),
        });
        ctx.steps(sink.write_calls);
        for f in &sink.faults_fired {
            ctx.agg.count(&format!("fault.{f:?}"));
        }
        let r = match r {
            Err(_) if sink.faults_fired.contains(&WriteFaultKind::Panic) => Err(apache_avro::Error::new(apache_avro::error::Details::WriteBytes(std::io::Error::other("sim: the sink panicked")))),
            Err(panic) => return Some(Failure::new("panic", format!("C18 panic writer=specific.{mname}"), format!("call #{idx} panicked: {panic}"))),
            Ok(r) => r,
        };
        ctx.ev(kind);
        ctx.ev_u(r.is_ok() as u64);
        ctx.agg.state(format!("specific.{mname}|{prev}|{}|{kind}", len_class(datum.len())));
        match r {
            Ok(_) => {
                if let Some(f) = judge_ok_message(&header, &datum, &sink.data, idx, "specific", prev, None) {
                    return Some(f);
                }
                let sent = Sent { msg: sink.data.clone(), value };
                if let Some(f) = check_roundtrip_generic(&schema, &sent, idx) {
                    return Some(f);
                }
                if let Some(f) = check_roundtrip_specific::<T>(&sent, idx) {
                    return Some(f);
                }
                all_good.push(Sent { msg: sent.msg.clone(), value: sent.value.clone() });
                if first_good.is_none() {
                    first_good = Some(sent);
                }
                prev = if datum.len() > 20 { "ok-long" } else { "ok-short" };
            }
            Err(e) => {
                if kind == "good" {
                    return Some(Failure::new(
                        "good-message-rejected",
                        format!("C18 good-message-rejected writer=specific.{mname} after={prev}"),
                        format!("call #{idx}: a value on a perfect sink was rejected: {e}"),
                    ));
                }
                prev = "sink-fail";
            }
        }
    }
    if let Some(f) = check_stream_generic(&schema, &all_good).or_else(|| check_stream_specific::<T>(&all_good)) {
        return Some(f);
    }
    if case.header_damage {
        if let Some(sent) = &first_good {
            let ds = match &case.only_damage {
                Some(d) => vec![d.clone()],
                None => header_damages(),
            };
            for d in &ds {
                if let Some(f) = check_header_damage(&schema, sent, d, Some(T::ID), ctx) {
                    return Some(f);
                }
            }
        }
    }
    None
}

pub struct C18;

/// `may_panic`: only for writers used through a shared reference (`&self`): those stay usable
/// after an unwind by Rust's own rules, whereas a `&mut self` writer whose call was unwound is
/// in an unspecified state the caller has vouched for (`AssertUnwindSafe`), not the library.
fn gen_sink_plan(r: &mut Rng, may_panic: bool) -> SinkPlan {
    match r.below(if may_panic { 6 } else { 5 }) {
        5 => SinkPlan { accept: if r.chance(1, 2) { Accept::All } else { Accept::Const(3) }, fault: Some(WriteFault { kind: WriteFaultKind::Panic, at: r.below(3) }) },
        0 => SinkPlan { accept: Accept::All, fault: Some(WriteFault { kind: WriteFaultKind::Other, at: 0 }) },
        1 => SinkPlan { accept: Accept::Const(3), fault: Some(WriteFault { kind: WriteFaultKind::Other, at: r.below(4) }) },
        2 => SinkPlan { accept: Accept::Const(1), fault: Some(WriteFault { kind: WriteFaultKind::DiskFull, at: r.below(15) }) },
        3 => SinkPlan { accept: Accept::All, fault: Some(WriteFault { kind: WriteFaultKind::ZeroAccept, at: 0 }) },
        _ => SinkPlan { accept: Accept::Const(4), fault: Some(WriteFault { kind: WriteFaultKind::WriteZero, at: r.below(3) }) },
    }
}

impl Property for C18 {
    type Case = Case;
    fn id(&self) -> &'static str {
        "C18"
    }
    fn level(&self) -> &'static str {
        "exploration"
    }
    fn rule(&self) -> String {
        "Seeded histories of 2-12 messages through ONE writer instance (GenericSingleObjectWriter with capacity 0/1/64, or \
         SpecificSingleObjectWriter::{write_ref, write, write_value} over the serde corpus): conforming values of varying encoded \
         length, validation-rejected values, values that validate but fail inside the encoder, sinks that fail or accept short, and \
         (typed writers, which are used through a shared reference) sinks that panic with the unwind caught by the caller; for the \
         corpus type Flat the same run also creates a typed writer for a second Rust type whose schema has the same full name. \
         Every Ok call must have produced exactly C3 01 | LE64(CRC-64-AVRO(canonical form)) | reference encoding in its own sink and \
         round-trip through every reader, alone and as one stream of all the history's messages read back to back from one \
         source. Per history the header damage set is exhaustive: 80 single-bit flips, truncations 0..9, a \
         foreign schema's header; every reader must reject without requesting a byte past the header. distinct_nontrivial counts \
         distinct (writer kind, previous outcome, next length class, message kind) tuples plus (damage kind, reader) pairs."
            .into()
    }
    fn assumptions(&self) -> Vec<String> {
        vec![
            "the expected fingerprint is the harness's CRC-64-AVRO over the library's canonical form (the canonical form itself is C12's subject)".into(),
            "corpus datum bytes come from the library's datum writer applied to a hand-written expected Value".into(),
        ]
    }
    fn components(&self) -> J {
        json!({"real": ["GenericSingleObjectWriter", "SpecificSingleObjectWriter", "GenericSingleObjectReader", "SpecificSingleObjectReader", "headers.rs", "rabin.rs"],
               "simulated": ["SimSink per call (errors, short accepts)", "SimSource (chunking, EINTR)", "header bit flips / truncation"],
               "reference": ["refimpl CRC-64-AVRO", "refimpl datum encoder", "SingleObjectModel: expected(v) = header | enc(v), independent of history"]})
    }
    fn runs(&self, tier: Tier) -> u64 {
        match tier {
            Tier::Quick => 120_000,
            Tier::Thorough => 20_000_000,
        }
    }
    fn required_probes(&self) -> Vec<&'static str> {
        vec!["probe.sink_failure_on_reused_writer", "probe.value_failed_inside_encoder"]
    }

    fn generate(&self, rng: &mut Rng, _run: u64, _tier: Tier) -> Option<Case> {
        let mut wr = rng.fork("workload");
        let n = wr.range(2, 12) as usize;
        let subject = if wr.chance(3, 5) {
            // wrap in a record with a trailing nullable field so that "validates but fails in the
            // encoder" is expressible
            let inner = gen_schema(&mut wr, 2, true).root;
            let schema = if wr.chance(2, 3) {
                RS::Record {
                    full: "Msg".into(),
                    style: NameStyle::Inherit,
                    fields: vec![
                        ("lead".into(), RS::Long),
                        ("body".into(), inner),
                        ("opt".into(), RS::Union(vec![RS::Null, RS::String])),
                    ],
                }
            } else {
                inner
            };
            let p = parse_rs(&schema)?;
            let mut vg = ValueGen::new(&p.defs);
            vg.max_blob = *wr.pick(&[4usize, 40, 1500]);
            let mut history = vec![];
            for _ in 0..n {
                let v = vg.gen(&mut wr, &schema, 0);
                history.push(match wr.below(10) {
                    0 => GMsg::WrongKind,
                    1..=2 => GMsg::MissingNullable(v),
                    3..=4 => GMsg::Sink(v, gen_sink_plan(&mut wr, false)),
                    _ => GMsg::Good(v),
                });
            }
            Subject::Generic { schema, cap: *wr.pick(&[0usize, 1, 64]), history }
        } else {
            let id = *wr.pick(&corpus::IDS);
            let history = with_corpus!(id, T => (0..n).map(|_| {
                let j = serde_json::to_value(T::gen(&mut wr)).unwrap();
                if wr.chance(1, 4) { SMsg::Sink(j, gen_sink_plan(&mut wr, true)) } else { SMsg::Good(j) }
            }).collect());
            Subject::Specific { type_id: id.into(), method: wr.below(3) as u8, history, perm: if wr.chance(1, 4) { wr.next_u64() | 1 } else { 0 } }
        };
        Some(Case { subject, header_damage: wr.chance(1, 3), only_damage: None })
    }

    fn execute(&self, case: &Case, ctx: &mut Ctx) -> Option<Failure> {
        match &case.subject {
            Subject::Generic { schema, cap, history } => run_generic(schema, *cap, history, case, ctx),
            Subject::Specific { type_id, method, history, perm } => {
                with_corpus!(type_id.as_str(), T => {
                    if *perm != 0 { run_specific_other_schema::<T>(*perm, history, ctx) } else { run_specific::<T>(*method, history, case, ctx) }
                })
            }
        }
    }

    fn shrink(&self, case: &Case, failure: &Failure) -> Vec<Case> {
        let mut out = vec![];
        if case.header_damage && case.only_damage.is_none() {
            if let Some(i) = failure.detail.rfind("[damage=") {
                let s = &failure.detail[i + 8..failure.detail.len() - 1];
                if let Ok(d) = serde_json::from_str::<HeaderDamage>(s) {
                    let mut c = case.clone();
                    c.only_damage = Some(d);
                    out.push(c);
                }
            } else {
                let mut c = case.clone();
                c.header_damage = false;
                out.push(c);
            }
        }
        match &case.subject {
            Subject::Generic { schema, cap, history } => {
                for i in (0..history.len()).rev() {
                    if history.len() > 1 {
                        let mut h = history.clone();
                        h.remove(i);
                        let mut c = case.clone();
                        c.subject = Subject::Generic { schema: schema.clone(), cap: *cap, history: h };
                        out.push(c);
                    }
                }
                // simplify sink plans
                for (i, m) in history.iter().enumerate() {
                    if let GMsg::Sink(v, p) = m {
                        let simple = SinkPlan { accept: Accept::All, fault: Some(WriteFault { kind: WriteFaultKind::Other, at: 0 }) };
                        if *p != simple {
                            let mut h = history.clone();
                            h[i] = GMsg::Sink(v.clone(), simple);
                            let mut c = case.clone();
                            c.subject = Subject::Generic { schema: schema.clone(), cap: *cap, history: h };
                            out.push(c);
                        }
                    }
                }
                // simplest schema that still has the nullable tail
                let simple = RS::Record {
                    full: "Msg".into(),
                    style: NameStyle::Inherit,
                    fields: vec![("lead".into(), RS::Long), ("opt".into(), RS::Union(vec![RS::Null, RS::String]))],
                };
                if *schema != simple {
                    let sv = |i: i64| RV::Record(vec![RV::Long(i), RV::Union(0, Box::new(RV::Null))]);
                    let h: Vec<GMsg> = history
                        .iter()
                        .enumerate()
                        .map(|(i, m)| match m {
                            GMsg::Good(_) => GMsg::Good(sv(i as i64 * 1000)),
                            GMsg::WrongKind => GMsg::WrongKind,
                            GMsg::MissingNullable(_) => GMsg::MissingNullable(sv(i as i64 * 1000)),
                            GMsg::Sink(_, p) => GMsg::Sink(sv(i as i64 * 1000), p.clone()),
                        })
                        .collect();
                    let mut c = case.clone();
                    c.subject = Subject::Generic { schema: simple, cap: *cap, history: h };
                    out.push(c);
                }
            }
            Subject::Specific { type_id, method, history, perm } => {
                for i in (0..history.len()).rev() {
                    if history.len() > 1 {
                        let mut h = history.clone();
                        h.remove(i);
                        let mut c = case.clone();
                        c.subject = Subject::Specific { type_id: type_id.clone(), method: *method, history: h, perm: *perm };
                        out.push(c);
                    }
                }
            }
        }
        out
    }

    fn sample(&self, case: &Case) -> J {
        match &case.subject {
            Subject::Generic { schema, cap, history } => json!({
                "writer": "GenericSingleObjectWriter", "capacity": cap, "schema": to_json(schema),
                "history": history.iter().map(|m| match m { GMsg::Good(_) => "good", GMsg::WrongKind => "validation-rejected", GMsg::MissingNullable(_) => "fails-inside-encoder", GMsg::Sink(_, _) => "failing-sink" }).collect::<Vec<_>>(),
                "header_damage_set": case.header_damage }),
            Subject::Specific { type_id, method, history, .. } => json!({
                "writer": format!("SpecificSingleObjectWriter<{type_id}>::{}", ["write_ref", "write", "write_value"][*method as usize % 3]),
                "history": history.iter().map(|m| match m { SMsg::Good(_) => "good", SMsg::Sink(_, _) => "failing-sink" }).collect::<Vec<_>>(),
                "header_damage_set": case.header_damage }),
        }
    }
}

#[allow(dead_code)]
fn _unused(_: ReadFault, _: ReadFaultKind) {}
