//! Batch driver shared by all properties: seeded runs spread over workers with order-independent
//! aggregation, violation capture, delta-debugging shrinker, replay files, evidence writer.

use crate::rng::Rng;
use serde::{Serialize, de::DeserializeOwned};
use serde_json::{Value as J, json};
use std::collections::{BTreeMap, BTreeSet};
use std::panic::{AssertUnwindSafe, catch_unwind};
use std::sync::Mutex;
use std::sync::atomic::{AtomicU64, Ordering};
use std::time::Instant;

pub const HARNESS_VERSION: &str = "avrosim-1";

#[derive(Clone, Copy, Debug, PartialEq, Eq)]
pub enum Tier {
    Quick,
    Thorough,
}

impl Tier {
    pub fn name(&self) -> &'static str {
        match self {
            Tier::Quick => "quick",
            Tier::Thorough => "thorough",
        }
    }
}

#[derive(Clone, Debug, Serialize, serde::Deserialize)]
pub struct Failure {
    /// coarse class; shrinking must preserve it
    pub class: String,
    /// class + minimal distinguishing facts; matched against known_findings.txt
    pub signature: String,
    pub detail: String,
}

impl Failure {
    pub fn new(class: &str, signature: impl Into<String>, detail: impl Into<String>) -> Self {
        Failure { class: class.to_string(), signature: signature.into(), detail: detail.into() }
    }
}

/// Order-independent aggregate of a batch.
#[derive(Default)]
pub struct Agg {
    pub counters: BTreeMap<String, u64>,
    pub distinct: BTreeSet<String>,
    pub digest: u64,
    pub evaluations: u64,
    pub steps: u64,
    pub samples: BTreeMap<u64, J>,
}

impl Agg {
    pub fn count(&mut self, k: &str) {
        *self.counters.entry(k.to_string()).or_insert(0) += 1;
    }
    pub fn add(&mut self, k: &str, n: u64) {
        if n > 0 {
            *self.counters.entry(k.to_string()).or_insert(0) += n;
        }
    }
    pub fn state(&mut self, k: String) {
        if self.distinct.len() < 2_000_000 {
            self.distinct.insert(k);
        }
    }
    pub fn merge(&mut self, o: Agg) {
        for (k, v) in o.counters {
            *self.counters.entry(k).or_insert(0) += v;
        }
        for k in o.distinct {
            self.distinct.insert(k);
        }
        self.digest = self.digest.wrapping_add(o.digest);
        self.evaluations += o.evaluations;
        self.steps += o.steps;
        for (k, v) in o.samples {
            self.samples.insert(k, v);
        }
    }
}

/// Per-run context handed to a property's `execute`.
pub struct Ctx<'a> {
    pub agg: &'a mut Agg,
    /// event-log digest of this run (order-sensitive inside the run)
    pub log: u64,
    pub run: u64,
}

impl Ctx<'_> {
    /// Append an event to the run's log digest. Must never depend on hash-map order or clocks.
    pub fn ev(&mut self, s: &str) {
        self.log = self.log.rotate_left(5) ^ crate::rng::fnv(s);
        self.log = self.log.wrapping_mul(0x0000_0100_0000_01B3);
    }
    pub fn ev_u(&mut self, x: u64) {
        self.log = (self.log.rotate_left(5) ^ x).wrapping_mul(0x0000_0100_0000_01B3);
    }
    pub fn eval(&mut self) {
        self.agg.evaluations += 1;
    }
    pub fn steps(&mut self, n: u64) {
        self.agg.steps += n;
    }
}

pub trait Property: Sync {
    type Case: Serialize + DeserializeOwned + Clone + Send;
    fn id(&self) -> &'static str;
    fn level(&self) -> &'static str;
    fn rule(&self) -> String;
    fn assumptions(&self) -> Vec<String>;
    fn components(&self) -> J;
    /// number of runs for the tier
    fn runs(&self, tier: Tier) -> u64;
    fn generate(&self, rng: &mut Rng, run: u64, tier: Tier) -> Option<Self::Case>;
    /// Execute one case. Must be a pure function of the case (no PRNG, no clock).
    fn execute(&self, case: &Self::Case, ctx: &mut Ctx) -> Option<Failure>;
    /// Smaller variants of a failing case, most aggressive first.
    fn shrink(&self, case: &Self::Case, failure: &Failure) -> Vec<Self::Case>;
    fn sample(&self, case: &Self::Case) -> J;
    /// probes that must be non-zero for the evidence to count as healthy
    fn required_probes(&self) -> Vec<&'static str> {
        vec![]
    }
    /// A second engine run after the seeded batch (C19: Miri's seeded scheduler).
    fn second_engine(&self, _seed: u64, _tier: Tier) -> Option<SecondEngine> {
        None
    }
}

pub struct SecondEngine {
    pub evidence: J,
    /// (replay document, failure) per violation, already confirmed by a fresh re-execution
    pub violations: Vec<(J, Failure)>,
    pub harness_errors: Vec<String>,
}

thread_local! {
    pub static LAST_PANIC: std::cell::RefCell<Option<String>> = const { std::cell::RefCell::new(None) };
    pub static QUIET_PANICS: std::cell::Cell<bool> = const { std::cell::Cell::new(false) };
}

pub fn install_panic_hook() {
    let default = std::panic::take_hook();
    std::panic::set_hook(Box::new(move |info| {
        let msg = format!("{info}");
        LAST_PANIC.with(|c| *c.borrow_mut() = Some(msg));
        if !QUIET_PANICS.with(|q| q.get()) {
            default(info);
        }
    }));
}

/// Run `f`, converting a panic into Err(message). Library panics are data for the oracles.
pub fn guarded<T>(f: impl FnOnce() -> T) -> Result<T, String> {
    let prev = QUIET_PANICS.with(|q| q.replace(true));
    let r = catch_unwind(AssertUnwindSafe(f));
    QUIET_PANICS.with(|q| q.set(prev));
    r.map_err(|_| LAST_PANIC.with(|c| c.borrow_mut().take()).unwrap_or_else(|| "panic".into()))
}

pub struct Found<C> {
    pub run: u64,
    pub case: C,
    pub failure: Failure,
}

pub struct BatchResult<C> {
    pub agg: Agg,
    pub found: Vec<Found<C>>,
    pub wall_s: f64,
    pub runs: u64,
    pub gen_skipped: u64,
}

pub fn workers() -> usize {
    std::env::var("VERIF_WORKERS").ok().and_then(|s| s.parse().ok()).unwrap_or_else(|| {
        std::thread::available_parallelism().map(|n| n.get()).unwrap_or(4).min(16)
    })
}

pub fn run_batch<P: Property>(p: &P, seed: u64, tier: Tier, nruns: u64, nworkers: usize) -> BatchResult<P::Case> {
    run_batch_known(p, seed, tier, nruns, nworkers, &[])
}

/// `known`: signatures listed in known_findings.txt; a failure with such a signature is counted
/// (`known.<signature>`) but neither collected nor allowed to cut the batch short.
pub fn run_batch_known<P: Property>(
    p: &P,
    seed: u64,
    tier: Tier,
    nruns: u64,
    nworkers: usize,
    known: &[String],
) -> BatchResult<P::Case> {
    run_batch_range(p, seed, tier, 0, nruns, nworkers, known)
}

/// Runs with index in [from, nruns).
pub fn run_batch_range<P: Property>(
    p: &P,
    seed: u64,
    tier: Tier,
    from: u64,
    nruns: u64,
    nworkers: usize,
    known: &[String],
) -> BatchResult<P::Case> {
    let t0 = Instant::now();
    let next = AtomicU64::new(from);
    let total = Mutex::new((Agg::default(), Vec::<Found<P::Case>>::new(), 0u64));
    let stop_after = AtomicU64::new(u64::MAX);
    std::thread::scope(|sc| {
        for _ in 0..nworkers {
            sc.spawn(|| {
                let mut agg = Agg::default();
                let mut found: Vec<Found<P::Case>> = vec![];
                let mut skipped = 0u64;
                loop {
                    let i = next.fetch_add(1, Ordering::Relaxed);
                    if i >= nruns || i > stop_after.load(Ordering::Relaxed) {
                        break;
                    }
                    let mut rng = Rng::for_run(seed, p.id(), i);
                    let Some(case) = p.generate(&mut rng, i, tier) else {
                        skipped += 1;
                        continue;
                    };
                    let mut ctx = Ctx { agg: &mut agg, log: 0, run: i };
                    let failure = p.execute(&case, &mut ctx);
                    let log = ctx.log;
                    agg.digest = agg.digest.wrapping_add(crate::rng::fnv(&format!("{i}:{log}")));
                    if i < from + 3 || (i >= 3 && i < 6) {
                        agg.samples.insert(i, p.sample(&case));
                    }
                    if let Some(failure) = failure {
                        if known.contains(&failure.signature) {
                            agg.count(&format!("known.{}", failure.signature));
                            continue;
                        }
                        // runs with a smaller index still complete; larger ones may be skipped
                        // once enough failures were seen (keeps a broken tree from taking forever)
                        found.push(Found { run: i, case, failure });
                        if found.len() >= 4 {
                            stop_after.fetch_min(i + 2000, Ordering::Relaxed);
                        }
                    }
                }
                let mut t = total.lock().unwrap();
                t.0.merge(agg);
                t.1.extend(found);
                t.2 += skipped;
            });
        }
    });
    let (agg, mut found, gen_skipped) = total.into_inner().unwrap();
    found.sort_by_key(|f| f.run);
    BatchResult { agg, found, wall_s: t0.elapsed().as_secs_f64(), runs: nruns, gen_skipped }
}

/// Greedy delta debugging: accept any smaller case that still fails with the same class.
pub fn shrink_case<P: Property>(p: &P, case: P::Case, failure: Failure, budget: usize) -> (P::Case, Failure, usize) {
    let mut cur = case;
    let mut cur_f = failure;
    let mut tried = 0;
    'outer: loop {
        let cands = p.shrink(&cur, &cur_f);
        for c in cands {
            if tried >= budget {
                break 'outer;
            }
            tried += 1;
            let mut agg = Agg::default();
            let mut ctx = Ctx { agg: &mut agg, log: 0, run: 0 };
            let r = guarded(|| p.execute(&c, &mut ctx));
            if let Ok(Some(f)) = r {
                if f.class == cur_f.class {
                    cur = c;
                    cur_f = f;
                    continue 'outer;
                }
            }
        }
        break;
    }
    (cur, cur_f, tried)
}

#[derive(Clone, Debug)]
pub struct Known {
    pub property: String,
    pub signature: String,
    pub text: String,
}

pub fn load_known(path: &str) -> Vec<Known> {
    let mut out = vec![];
    let Ok(s) = std::fs::read_to_string(path) else { return out };
    for line in s.lines() {
        let line = line.trim();
        // format: known: property=<id> signature=<sig> <free text>
        if let Some(rest) = line.strip_prefix("known:") {
            let rest = rest.trim();
            let mut property = String::new();
            let mut signature = String::new();
            let mut text = vec![];
            for tok in rest.split_whitespace() {
                if let Some(v) = tok.strip_prefix("property=") {
                    property = v.to_string();
                } else if let Some(v) = tok.strip_prefix("signature=") {
                    signature = v.to_string();
                } else {
                    text.push(tok);
                }
            }
            if !property.is_empty() && !signature.is_empty() {
                out.push(Known { property, signature, text: text.join(" ") });
            }
        }
    }
    out
}

pub fn verif_dir() -> String {
    std::env::var("VERIF_DIR").unwrap_or_else(|_| "/verif".to_string())
}

pub struct CheckOutcome {
    pub exit_code: i32,
}

/// Full check: batch, shrink, replay files, known-finding classification, evidence.
pub fn check<P: Property>(p: &P, seed: u64, tier: Tier) -> CheckOutcome {
    let nruns = std::env::var("VERIF_RUNS").ok().and_then(|s| s.parse().ok()).unwrap_or_else(|| p.runs(tier));
    let dir = verif_dir();
    let known = load_known(&format!("{dir}/known_findings.txt"));
    let known_sigs: Vec<String> = known.iter().filter(|k| k.property == p.id()).map(|k| k.signature.clone()).collect();
    let res = run_batch_known(p, seed, tier, nruns, workers(), &known_sigs);
    let mut violations = 0;
    let mut known_hits: BTreeMap<String, String> = BTreeMap::new();
    let mut reported: BTreeSet<String> = BTreeSet::new();
    let mut lines: Vec<String> = vec![];
    let mut harness_error = false;
    for (n, f) in res.found.iter().enumerate() {
        if reported.len() + known_hits.len() >= 6 {
            break;
        }
        let (case, failure, tried) = shrink_case(p, f.case.clone(), f.failure.clone(), 3000);
        if let Some(k) = known.iter().find(|k| k.property == p.id() && k.signature == failure.signature) {
            known_hits.entry(failure.signature.clone()).or_insert_with(|| k.text.clone());
            continue;
        }
        if reported.contains(&failure.signature) {
            continue;
        }
        let _ = std::fs::create_dir_all(format!("{dir}/replays"));
        let path = format!("{dir}/replays/{}-{}-{}.json", p.id(), seed, n);
        let doc = json!({
            "property": p.id(),
            "seed": seed,
            "run_index": f.run,
            "harness_version": HARNESS_VERSION,
            "violation": {"class": failure.class, "signature": failure.signature, "detail": failure.detail},
            "shrink_steps_tried": tried,
            "case": serde_json::to_value(&case).unwrap(),
        });
        std::fs::write(&path, serde_json::to_string_pretty(&doc).unwrap()).expect("write replay");
        // re-execute in a fresh process before reporting
        let exe = std::env::current_exe().unwrap();
        let out = std::process::Command::new(exe).arg("replay").arg(&path).output();
        match out {
            Ok(o) if o.status.code() == Some(1) => {
                reported.insert(failure.signature.clone());
                violations += 1;
                lines.push(format!("VIOLATION property={} replay={}", p.id(), path));
                lines.push(format!("  class={} signature={} detail={}", failure.class, failure.signature, failure.detail));
            }
            Ok(o) => {
                harness_error = true;
                lines.push(format!(
                    "HARNESS-ERROR property={} replay={} did not reproduce in a fresh process (exit {:?}): {}",
                    p.id(),
                    path,
                    o.status.code(),
                    String::from_utf8_lossy(&o.stdout)
                ));
            }
            Err(e) => {
                harness_error = true;
                lines.push(format!("HARNESS-ERROR cannot spawn replay: {e}"));
            }
        }
    }
    let second = p.second_engine(seed, tier);
    let mut second_evidence = J::Null;
    if let Some(se) = second {
        second_evidence = se.evidence;
        for e in se.harness_errors {
            harness_error = true;
            lines.push(format!("HARNESS-ERROR property={} second engine: {e}", p.id()));
        }
        for (n, (doc, failure)) in se.violations.into_iter().enumerate() {
            if let Some(k) = known.iter().find(|k| k.property == p.id() && k.signature == failure.signature) {
                known_hits.entry(failure.signature.clone()).or_insert_with(|| k.text.clone());
                continue;
            }
            if !reported.insert(failure.signature.clone()) {
                continue;
            }
            let _ = std::fs::create_dir_all(format!("{dir}/replays"));
            let path = format!("{dir}/replays/{}-engine2-{}-{}.json", p.id(), seed, n);
            std::fs::write(&path, serde_json::to_string_pretty(&doc).unwrap()).expect("write replay");
            violations += 1;
            lines.push(format!("VIOLATION property={} replay={}", p.id(), path));
            lines.push(format!("  class={} signature={} detail={}", failure.class, failure.signature, failure.detail));
        }
    }
    for k in known.iter().filter(|k| k.property == p.id()) {
        if res.agg.counters.get(&format!("known.{}", k.signature)).copied().unwrap_or(0) > 0 {
            known_hits.entry(k.signature.clone()).or_insert_with(|| k.text.clone());
        }
    }
    for (sig, text) in &known_hits {
        println!("KNOWN-FINDING: property={} {} [{}]", p.id(), text, sig);
    }
    for l in &lines {
        println!("{l}");
    }
    // evidence
    let mut missing_probes = vec![];
    for pr in p.required_probes() {
        if res.agg.counters.get(pr).copied().unwrap_or(0) == 0 {
            missing_probes.push(pr.to_string());
        }
    }
    let samples: Vec<J> = res.agg.samples.values().cloned().collect();
    let faults: BTreeMap<&String, &u64> = res.agg.counters.iter().filter(|(k, _)| k.starts_with("fault.")).collect();
    let probes: BTreeMap<&String, &u64> = res.agg.counters.iter().filter(|(k, _)| k.starts_with("probe.")).collect();
    let other: BTreeMap<&String, &u64> =
        res.agg.counters.iter().filter(|(k, _)| !k.starts_with("probe.") && !k.starts_with("fault.")).collect();
    let distinct_samples: Vec<&String> = res.agg.distinct.iter().take(12).collect();
    let ev = json!({
        "property_id": p.id(),
        "tier": tier.name(),
        "seed": seed,
        "level": p.level(),
        "coverage": {
            "evaluations": res.agg.evaluations,
            "distinct_nontrivial": res.agg.distinct.len(),
            "rule": p.rule(),
            "samples": samples,
            "distinct_state_examples": distinct_samples,
            "simulated_runs": res.runs - res.gen_skipped,
            "generator_skipped": res.gen_skipped,
            "simulated_steps": res.agg.steps,
            "runs_per_hour": if res.wall_s > 0.0 { ((res.runs as f64) / res.wall_s * 3600.0) as u64 } else { 0 },
            "evaluations_per_hour": if res.wall_s > 0.0 { ((res.agg.evaluations as f64) / res.wall_s * 3600.0) as u64 } else { 0 },
            "faults_fired": faults,
            "probes": probes,
            "counters": other,
            "probes_stuck_at_zero": missing_probes,
            "batch_digest": format!("{:016x}", res.agg.digest),
            "components": p.components(),
            "known_findings_hit": known_hits.keys().collect::<Vec<_>>(),
            "workers": workers(),
            "second_engine": second_evidence,
        },
        "assumptions": p.assumptions(),
        "wall_s": res.wall_s,
        "violations": violations,
    });
    let _ = std::fs::create_dir_all(format!("{dir}/evidence"));
    let evpath = format!("{dir}/evidence/{}.json", p.id());
    std::fs::write(&evpath, serde_json::to_string_pretty(&ev).unwrap()).expect("write evidence");
    println!(
        "{} {} seed={} runs={} evaluations={} distinct={} violations={} known={} wall={:.1}s digest={:016x}",
        p.id(),
        tier.name(),
        seed,
        res.runs,
        res.agg.evaluations,
        res.agg.distinct.len(),
        violations,
        known_hits.len(),
        res.wall_s,
        res.agg.digest
    );
    if !missing_probes.is_empty() {
        println!("NOTE probes stuck at zero: {missing_probes:?}");
    }
    let exit_code = if violations > 0 {
        1
    } else if harness_error {
        2
    } else {
        0
    };
    CheckOutcome { exit_code }
}

/// Replay one recorded case. Exit 1 (and a VIOLATION line) iff it still fails.
pub fn replay<P: Property>(p: &P, doc: &J, path: &str) -> i32 {
    let case: P::Case = match serde_json::from_value(doc["case"].clone()) {
        Ok(c) => c,
        Err(e) => {
            println!("HARNESS-ERROR cannot decode case in {path}: {e}");
            return 2;
        }
    };
    let mut agg = Agg::default();
    let mut ctx = Ctx { agg: &mut agg, log: 0, run: 0 };
    match guarded(|| p.execute(&case, &mut ctx)) {
        Ok(Some(f)) => {
            let recorded = doc["violation"]["class"].as_str().unwrap_or("");
            println!("VIOLATION property={} replay={}", p.id(), path);
            println!("  class={} signature={} detail={}", f.class, f.signature, f.detail);
            if recorded != f.class {
                println!("  NOTE recorded class was {recorded}");
            }
            1
        }
        Ok(None) => {
            println!("replay {path}: property {} holds on this trace (no violation)", p.id());
            0
        }
        Err(m) => {
            println!("HARNESS-ERROR panic while replaying {path}: {m}");
            2
        }
    }
}

/// Determinism self-check helper: digest of a batch at a given worker count.
pub fn batch_digest<P: Property>(p: &P, seed: u64, tier: Tier, nruns: u64, nworkers: usize) -> (u64, u64, usize) {
    let r = run_batch(p, seed, tier, nruns, nworkers);
    (r.agg.digest, r.agg.evaluations, r.agg.distinct.len())
}
