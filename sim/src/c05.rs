//! C05 - decoding untrusted bytes never panics, aborts, hangs or over-allocates.
//!
//! The inputs are valid stored artefacts (datums, container files with every codec, single-object
//! messages, compressed blocks) to which the simulator applies storage faults, delivered through a
//! faulty Read seam; the properties observed are environment limits: the allocator (counting
//! global allocator with a per-call window), a deterministic step budget, and the process itself.
//! The allocation limit is a process-wide write-once cell, so each limit runs in its own child.

use crate::alloc::{self, Window};
use crate::anyvalue::{self, Discard};
use crate::common::{CodecSpec, marker_from, parse_rs};
use crate::gen::{RS, RV, ValueGen, gen_schema, to_json};
use crate::harness::{self, Agg, Ctx, Failure, Property, Tier, guarded};
use crate::refimpl;
use crate::rng::Rng;
use crate::seams::{Chunk, ReadFault, ReadFaultKind, SimSource, SourcePlan};
use apache_avro::reader::datum::GenericDatumReader;
use apache_avro::{GenericSingleObjectReader, Reader, Schema};
use serde::{Deserialize, Serialize};
use serde_json::{Value as J, json};
use std::sync::atomic::{AtomicU64, AtomicUsize, Ordering};

pub const DEFAULT_LIMIT: usize = 512 * 1024 * 1024;
pub const LIMITS: [usize; 4] = [4096, 65536, 1 << 20, DEFAULT_LIMIT];

/// The limit this process was started with (set once by the child / replay entry points).
static PROCESS_LIMIT: AtomicUsize = AtomicUsize::new(0);

/// Install the allocation limit for this process. Returns false if another value is in force.
pub fn install_limit(limit: usize) -> bool {
    let got = apache_avro::util::max_allocation_bytes(limit);
    PROCESS_LIMIT.store(got, Ordering::SeqCst);
    got == limit
}

fn process_limit() -> usize {
    PROCESS_LIMIT.load(Ordering::SeqCst)
}

#[derive(Clone, Debug, Serialize, Deserialize)]
pub enum Artefact {
    Datum { schema: RS, value: RV },
    Single { schema: RS, value: RV },
    Container {
        schema: RS,
        codec: CodecSpec,
        blocks: Vec<Vec<RV>>,
        /// appended after avro.schema / avro.codec; may repeat reserved keys with hostile values
        extra_meta: Vec<(String, Vec<u8>)>,
        /// replaces the embedded schema text (hostile embedded schema)
        schema_override: Option<String>,
    },
    Compressed { codec: CodecSpec, raw: Vec<u8> },
    /// arbitrary bytes against the datum entry points
    Raw { schema: RS, bytes: Vec<u8> },
    /// a container (null codec, schema `bytes`) of `blocks` equal blocks of `size` bytes each, every
    /// one within the limit. Nothing in reading it needs a request above the limit (equal sizes: no
    /// amortised growth of the reused block buffer), so the bound is tight: limit + 1 KiB.
    TightBlocks { size: usize, blocks: usize },
    /// an array / map written as several blocks, each count chosen against the limit: every block
    /// alone is within it, their sum is not (`neg`: counts written negative, followed by a byte size)
    Blocks { schema: RS, counts: Vec<i64>, neg: bool },
    /// every byte string of length <= max_len against the datum entry points
    Exhaustive { schema: RS, max_len: u8 },
}

impl Artefact {
    fn kind(&self) -> &'static str {
        match self {
            Artefact::Datum { .. } => "datum",
            Artefact::Single { .. } => "single_object",
            Artefact::Container { .. } => "container",
            Artefact::Compressed { .. } => "compressed_block",
            Artefact::Raw { .. } => "raw_bytes",
            Artefact::Blocks { .. } => "multi_block_collection",
            Artefact::TightBlocks { .. } => "equal_blocks_within_limit",
            Artefact::Exhaustive { .. } => "exhaustive_short",
        }
    }
}

#[derive(Clone, Debug, Serialize, Deserialize, PartialEq)]
pub enum Damage {
    Truncate(usize),
    Flip(usize, u8),
    Set(usize, u8),
    Dup { from: usize, len: usize },
    Drop { from: usize, len: usize },
    Zero { from: usize, len: usize },
    /// replace the k-th varint field (length / count / size / index) by another value
    Inflate { field: usize, value: i64 },
    /// container files: rewrite block `block` consistently - declared object count `count`, payload
    /// cut to `keep_permille`/1000 of its bytes, byte size and marker matching - so that the block
    /// is well-framed but declares more (or fewer) objects than it holds
    BlockRewrite { block: usize, count: i64, keep_permille: u32 },
}

impl Damage {
    fn kind(&self) -> &'static str {
        match self {
            Damage::Truncate(_) => "truncate",
            Damage::Flip(..) => "flip_bit",
            Damage::Set(..) => "set_byte",
            Damage::Dup { .. } => "dup_range",
            Damage::Drop { .. } => "drop_range",
            Damage::Zero { .. } => "zero_range",
            Damage::Inflate { .. } => "inflate_length_field",
            Damage::BlockRewrite { .. } => "rewrite_block_count_vs_content",
        }
    }
}

#[derive(Clone, Debug, Serialize, Deserialize)]
pub struct Case {
    pub limit: usize,
    pub artefact: Artefact,
    pub damages: Vec<Damage>,
    pub chunk: Chunk,
    pub eintr_every: u64,
    /// hard read error at this offset of the damaged bytes
    pub err_at: Option<u64>,
    pub reader_schema: bool,
    pub salt: u64,
}

struct Built {
    bytes: Vec<u8>,
    /// offsets of varint fields that are lengths / counts / sizes / indices
    fields: Vec<usize>,
    schema: Option<Schema>,
    /// upper bound on the number of items a well-formed version holds
    items: usize,
}

fn build(a: &Artefact) -> Option<Built> {
    match a {
        Artefact::Datum { schema, value } | Artefact::Single { schema, value } => {
            let p = parse_rs(schema)?;
            let mut tr = Some(vec![]);
            let mut bytes = vec![];
            refimpl::encode_t(value, schema, &p.defs, &mut bytes, &mut tr);
            let mut fields: Vec<usize> = tr
                .unwrap()
                .into_iter()
                .filter(|(_, k)| matches!(*k, "bytes" | "string" | "array" | "map" | "union" | "enum" | "int" | "long" | "decimal" | "big-decimal" | "uuid"))
                .map(|(o, _)| o)
                .collect();
            fields.dedup();
            if let Artefact::Single { .. } = a {
                let h = refimpl::single_object_header(&p.schema.canonical_form());
                let mut m = h.to_vec();
                m.extend_from_slice(&bytes);
                bytes = m;
                fields.iter_mut().for_each(|o| *o += 10);
            }
            Some(Built { bytes, fields, schema: Some(p.schema), items: 1 })
        }
        Artefact::Container { schema, codec, blocks, extra_meta, schema_override } => {
            let p = parse_rs(schema)?;
            let json = match schema_override {
                Some(s) => s.clone(),
                None => serde_json::to_string(&to_json(schema)).unwrap(),
            };
            let mut meta = vec![("avro.schema".to_string(), json.into_bytes())];
            if *codec != CodecSpec::Null {
                meta.push(("avro.codec".to_string(), codec.kind().as_bytes().to_vec()));
            }
            meta.extend(extra_meta.iter().cloned());
            let marker = [0x5au8; 16];
            let mut out = refimpl::write_header(&meta, &marker);
            let mut items = 0;
            for b in blocks {
                let mut raw = vec![];
                for v in b {
                    refimpl::encode(v, schema, &p.defs, &mut raw);
                }
                items += b.len();
                refimpl::write_block(&mut out, b.len(), &raw, &codec.to_ref(), &marker);
            }
            let mut fields = vec![4usize];
            if let Some(l) = refimpl::parse_file(&out) {
                for b in &l.blocks {
                    fields.push(b.start);
                    fields.push(b.start + b.count_len);
                }
            }
            Some(Built { bytes: out, fields, schema: Some(p.schema), items })
        }
        Artefact::Compressed { codec, raw } => Some(Built { bytes: codec.to_ref().compress(raw), fields: vec![0], schema: None, items: 1 }),
        Artefact::Raw { schema, bytes } => {
            let p = parse_rs(schema)?;
            Some(Built { bytes: bytes.clone(), fields: vec![0], schema: Some(p.schema), items: 1 })
        }
        Artefact::Exhaustive { schema, .. } => {
            let p = parse_rs(schema)?;
            Some(Built { bytes: vec![], fields: vec![], schema: Some(p.schema), items: 1 })
        }
        Artefact::TightBlocks { size, blocks } => {
            let p = parse_rs(&RS::Bytes)?;
            let meta = vec![("avro.schema".to_string(), b"\"bytes\"".to_vec())];
            let marker = [0x5au8; 16];
            let mut out = refimpl::write_header(&meta, &marker);
            // one bytes value that fills the block exactly (or one byte short where no length fits)
            let mut l = size.saturating_sub(1);
            while l > 0 && refimpl::long_len(l as i64) + l > *size {
                l -= 1;
            }
            let mut raw = vec![];
            refimpl::put_long(&mut raw, l as i64);
            raw.resize(raw.len() + l, 0x61);
            for _ in 0..*blocks {
                refimpl::write_block(&mut out, 1, &raw, &refimpl::RCodec::Null, &marker);
            }
            Some(Built { bytes: out, fields: vec![], schema: Some(p.schema), items: *blocks })
        }
        Artefact::Blocks { schema, counts, neg } => {
            let p = parse_rs(schema)?;
            let (item, is_map): (&[u8], bool) = match schema {
                RS::Array(t) if **t == RS::Long => (&[2], false),
                RS::Map(_) => (&[2, b'k'], true),
                _ => (&[], false),
            };
            let _ = is_map;
            let mut bytes = vec![];
            let mut fields = vec![];
            for c in counts {
                fields.push(bytes.len());
                if *neg {
                    refimpl::put_long(&mut bytes, -*c);
                    refimpl::put_long(&mut bytes, (*c as usize * item.len()) as i64);
                } else {
                    refimpl::put_long(&mut bytes, *c);
                }
                for _ in 0..*c {
                    bytes.extend_from_slice(item);
                }
            }
            bytes.push(0);
            Some(Built { bytes, fields, schema: Some(p.schema), items: 1 })
        }
    }
}

fn apply(bytes: &mut Vec<u8>, fields: &[usize], d: &Damage) {
    let n = bytes.len();
    match d {
        Damage::Truncate(at) => bytes.truncate((*at).min(n)),
        Damage::Flip(o, bit) => {
            if n > 0 {
                bytes[o % n] ^= 1 << (bit % 8)
            }
        }
        Damage::Set(o, v) => {
            if n > 0 {
                bytes[o % n] = *v
            }
        }
        Damage::Dup { from, len } => {
            if n > 0 {
                let f = from % n;
                let l = (*len).min(n - f).min(4096);
                let piece = bytes[f..f + l].to_vec();
                let tail = bytes.split_off(f + l);
                bytes.extend_from_slice(&piece);
                bytes.extend_from_slice(&tail);
            }
        }
        Damage::Drop { from, len } => {
            if n > 0 {
                let f = from % n;
                let l = (*len).min(n - f);
                bytes.drain(f..f + l);
            }
        }
        Damage::Zero { from, len } => {
            if n > 0 {
                let f = from % n;
                let l = (*len).min(n - f);
                bytes[f..f + l].iter_mut().for_each(|b| *b = 0);
            }
        }
        Damage::BlockRewrite { block, count, keep_permille } => {
            let Some(l) = refimpl::parse_file(bytes) else { return };
            if l.blocks.is_empty() {
                return;
            }
            let b = &l.blocks[block % l.blocks.len()];
            let keep = (b.payload_len as u64 * (*keep_permille).min(1000) as u64 / 1000) as usize;
            let mut nb = vec![];
            refimpl::put_long(&mut nb, *count);
            refimpl::put_long(&mut nb, keep as i64);
            nb.extend_from_slice(&bytes[b.payload_start..b.payload_start + keep]);
            nb.extend_from_slice(&l.marker);
            bytes.splice(b.start..b.end, nb);
        }
        Damage::Inflate { field, value } => {
            if fields.is_empty() {
                return;
            }
            let off = fields[field % fields.len()];
            if off >= n {
                return;
            }
            let mut p = off;
            if refimpl::get_long(bytes, &mut p).is_some() {
                let mut nv = vec![];
                refimpl::put_long(&mut nv, *value);
                bytes.splice(off..p, nv);
            }
        }
    }
}

#[derive(Debug)]
struct CallObs {
    entry: &'static str,
    outcome: &'static str,
    err: String,
    window: Window,
    source_calls: u64,
    budget_exceeded: bool,
    visits: u64,
    visit_budget_exhausted: bool,
    /// the call was cut off at VISIT_CAP, below the deterministic bound
    visit_inconclusive: bool,
    /// Ok items delivered (containers) / output length (decompression)
    delivered: u64,
    /// a size_hint lower bound that exceeded the items that followed: (lower bound, items)
    hint_excess: Option<(u64, u64)>,
    panic: Option<String>,
}

fn plan_of(case: &Case) -> SourcePlan {
    let mut faults = vec![];
    if let Some(e) = case.err_at {
        faults.push(ReadFault { kind: ReadFaultKind::Other, at: e });
    }
    SourcePlan { chunk: case.chunk.clone(), faults, eintr_every: case.eintr_every }
}

fn call_budget(input_len: usize) -> u64 {
    4 * input_len as u64 + 4096
}

/// Deterministic bound on visitor callbacks of one call. Every array / map instance costs at
/// least one byte of input (its count) and may declare at most `limit` items in total; a
/// zero-width item (null, a record of nulls) costs no input, so the bound is a product:
/// instances x items x callbacks per item (schema size, bounded by the generator).
fn visit_bound(input_len: usize, limit: usize) -> u64 {
    64u64.saturating_mul(input_len as u64 + 2).saturating_mul(limit as u64 + 64)
}

/// Calls are cut off here when the bound is larger: such a run is inconclusive (counted), not an alarm.
const VISIT_CAP: u64 = 20_000_000;

fn visit_budget(input_len: usize, limit: usize) -> u64 {
    visit_bound(input_len, limit).min(VISIT_CAP)
}

/// Marker for the tight bound of `TightBlocks` (limit + 1 KiB), passed in place of a workspace.
const TIGHT: usize = usize::MAX;

/// Fixed working memory of a codec library that reaches the Rust allocator: zstd's input buffer
/// (`DCtx::in_size()` = 131075 bytes) and bzip2's block tables (4 bytes x 100 kB x level <= 9).
/// Neither is sized from a length declared in the data beyond these constants.
fn codec_workspace(akind: &str, bytes: &[u8], codec: Option<&CodecSpec>) -> usize {
    let has = |needle: &[u8]| bytes.windows(needle.len()).any(|w| w == needle);
    match (akind, codec) {
        ("compressed_block", Some(CodecSpec::Bzip2(_))) => 4 << 20,
        ("compressed_block", Some(CodecSpec::Zstd(_))) => 256 << 10,
        ("container", _) if has(b"bzip2") => 4 << 20,
        ("container", _) if has(b"zstandard") => 256 << 10,
        _ => 0,
    }
}

/// One library call inside an allocator window and a panic guard, over a budgeted source.
fn observe_call<F>(entry: &'static str, bytes: &[u8], plan: &SourcePlan, limit: usize, f: F) -> CallObs
where
    F: FnOnce(&mut SimSource) -> Result<(), String>,
{
    anyvalue::reset_visits(visit_budget(bytes.len(), limit));
    let mut src = SimSource::new(bytes, plan.clone());
    src.call_budget = call_budget(bytes.len());
    let (r, window) = alloc::observe(|| guarded(|| f(&mut src)));
    tick_slot();
    let (outcome, err, panic) = match r {
        Err(p) => ("panic", String::new(), Some(p)),
        Ok(Ok(())) => ("ok", String::new(), None),
        Ok(Err(e)) => {
            let o = if e.contains("maximum allowed") { "limit_rejected" } else { "err" };
            (o, e, None)
        }
    };
    CallObs {
        entry,
        outcome,
        err,
        window,
        source_calls: src.calls,
        budget_exceeded: src.budget_exceeded,
        visits: anyvalue::visits(),
        visit_budget_exhausted: anyvalue::budget_exhausted() && visit_bound(bytes.len(), limit) <= VISIT_CAP,
        visit_inconclusive: anyvalue::budget_exhausted() && visit_bound(bytes.len(), limit) > VISIT_CAP,
        delivered: DELIVERED.with(|d| d.replace(0)),
        hint_excess: {
            let h = HINT_EXCESS.with(|h| h.replace((0, 0)));
            if h.0 > h.1 { Some(h) } else { None }
        },
        panic,
    }
}

thread_local! {
    static DELIVERED: std::cell::Cell<u64> = const { std::cell::Cell::new(0) };
}

fn delivered(n: u64) {
    DELIVERED.with(|d| d.set(d.get() + n));
}

fn normalise(msg: &str) -> String {
    // strip digits and quoted data so that a signature names the panic site, not the input
    let mut s: String = msg.chars().map(|c| if c.is_ascii_digit() { '#' } else { c }).collect();
    while s.contains("##") {
        s = s.replace("##", "#");
    }
    s.chars().take(90).collect()
}

fn judge_call(o: &CallObs, input_len: usize, limit: usize, akind: &str, workspace: usize) -> Option<Failure> {
    if let Some(p) = &o.panic {
        return Some(Failure::new(
            "panic",
            format!("C05 panic entry={} at={}", o.entry, normalise(p)),
            format!("{} panicked on a {input_len}-byte {akind} input: {p}", o.entry),
        ));
    }
    let bound = if workspace == TIGHT {
        limit.saturating_add(1024)
    } else {
        4usize.saturating_mul(limit).saturating_add(64 * 1024).saturating_add(8 * input_len).max(workspace)
    };
    if o.window.largest > bound {
        return Some(Failure::new(
            "over-allocation",
            format!("C05 over-allocation entry={} artefact={akind}", o.entry),
            format!(
                "{} requested a single allocation of {} bytes for a {input_len}-byte {akind} input with the limit at {limit} (bound {} = {bound}); outcome {}: {}",
                o.entry,
                o.window.largest,
                if workspace == TIGHT { "limit + 1 KiB: equal blocks, each within the limit".to_string() } else { format!("max(4*limit+64KiB+8*input, codec workspace {workspace})") },
                o.outcome,
                o.err
            ),
        ));
    }
    if let Some((lower, items)) = o.hint_excess {
        return Some(Failure::new(
            "size-hint-from-untrusted-count",
            format!("C05 size-hint-from-untrusted-count entry={} artefact={akind}", o.entry),
            format!(
                "{}: size_hint() promised at least {lower} more item(s) where only {items} followed on a {input_len}-byte {akind} input - collect() / extend() reserve memory for that lower bound, which is taken from a count declared in the data",
                o.entry
            ),
        ));
    }
    if o.budget_exceeded || o.visit_budget_exhausted {
        return Some(Failure::new(
            "step-budget-exceeded",
            format!("C05 step-budget-exceeded entry={} artefact={akind}", o.entry),
            format!(
                "{} did not finish within the step budget on a {input_len}-byte {akind} input with the limit at {limit}: {} source calls (budget {}), {} visitor callbacks (budget {})",
                o.entry,
                o.source_calls,
                call_budget(input_len),
                o.visits,
                visit_bound(input_len, limit)
            ),
        ));
    }
    None
}

fn datum_calls(schema: &Schema, bytes: &[u8], plan: &SourcePlan, limit: usize, reader_schema: bool) -> Vec<CallObs> {
    let mut out = vec![];
    out.push(observe_call("datum.read_value", bytes, plan, limit, |src| {
        let rd = GenericDatumReader::builder(schema).build().map_err(|e| e.to_string())?;
        rd.read_value(src).map(|_| ()).map_err(|e| e.to_string())
    }));
    if reader_schema {
        out.push(observe_call("datum.read_value+reader_schema", bytes, plan, limit, |src| {
            let rd = GenericDatumReader::builder(schema).reader_schema(schema).build().map_err(|e| e.to_string())?;
            rd.read_value(src).map(|_| ()).map_err(|e| e.to_string())
        }));
    }
    if reader_schema {
        // resolution against a reader schema that differs from the writer's: [writer, "null"]
        if let Ok(u) = apache_avro::schema::UnionSchema::new(vec![schema.clone(), Schema::Null]) {
            let evolved = Schema::Union(u);
            out.push(observe_call("datum.read_value+evolved_reader", bytes, plan, limit, |src| {
                let rd = GenericDatumReader::builder(schema).reader_schema(&evolved).build().map_err(|e| e.to_string())?;
                rd.read_value(src).map(|_| ()).map_err(|e| e.to_string())
            }));
        }
        out.push(observe_call("datum.from_avro_datum", bytes, plan, limit, |src| {
            #[allow(deprecated)]
            apache_avro::from_avro_datum(schema, src, None).map(|_| ()).map_err(|e| e.to_string())
        }));
    }
    // the same bytes into Rust types with their own visitors (the helper types of the crate and a
    // few std ones): whatever the writer schema declares at that position, the answer is a value or an error
    let typed: (&'static str, fn(&GenericDatumReader, &mut SimSource) -> Result<(), String>) = match bytes.len() % 5 {
        0 => ("datum.read_deser<Duration>", |rd, src| rd.read_deser::<apache_avro::Duration>(src).map(|_| ()).map_err(|e| e.to_string())),
        1 => ("datum.read_deser<Uuid>", |rd, src| rd.read_deser::<apache_avro::Uuid>(src).map(|_| ()).map_err(|e| e.to_string())),
        2 => ("datum.read_deser<BigDecimal>", |rd, src| rd.read_deser::<apache_avro::BigDecimal>(src).map(|_| ()).map_err(|e| e.to_string())),
        3 => ("datum.read_deser<ByteBuf>", |rd, src| rd.read_deser::<serde_bytes::ByteBuf>(src).map(|_| ()).map_err(|e| e.to_string())),
        _ => ("datum.read_deser<Option<String>>", |rd, src| rd.read_deser::<Option<String>>(src).map(|_| ()).map_err(|e| e.to_string())),
    };
    out.push(observe_call(typed.0, bytes, plan, limit, |src| {
        let rd = GenericDatumReader::builder(schema).build().map_err(|e| e.to_string())?;
        (typed.1)(&rd, src)
    }));
    out.push(observe_call("datum.read_deser", bytes, plan, limit, |src| {
        let rd = GenericDatumReader::builder(schema).build().map_err(|e| e.to_string())?;
        rd.read_deser::<Discard>(src).map(|_| ()).map_err(|e| e.to_string())
    }));
    out
}

thread_local! {
    /// (lower bound of size_hint, items that actually followed) of the worst sample of the call
    static HINT_EXCESS: std::cell::Cell<(u64, u64)> = const { std::cell::Cell::new((0, 0)) };
}

/// Drains an iterator of results with a bound on the number of `next()` calls, counting what is
/// delivered and sampling `size_hint()` after every item: its lower bound is a promise (consumers
/// like `collect` reserve memory for it), so it must never exceed what the iterator still yields.
fn drain<T, E: std::fmt::Display>(it: &mut impl Iterator<Item = Result<T, E>>, max_items: usize) -> Result<(), String> {
    let mut last = Ok(());
    let mut hints: Vec<(usize, usize)> = vec![];
    let mut yielded = 0usize;
    let mut ended = false;
    while yielded <= max_items {
        match it.next() {
            None => {
                ended = true;
                break;
            }
            Some(item) => {
                yielded += 1;
                match item {
                    Err(e) => last = Err(e.to_string()),
                    Ok(_) => delivered(1),
                }
                hints.push((yielded, it.size_hint().0));
            }
        }
    }
    if ended {
        for (at, lower) in hints {
            let remaining = yielded - at;
            if lower > remaining && (lower - remaining) as u64 > HINT_EXCESS.with(|h| h.get().0.saturating_sub(h.get().1)) {
                HINT_EXCESS.with(|h| h.set((lower as u64, remaining as u64)));
            }
        }
    }
    last
}

fn run_calls(case: &Case, b: &Built, bytes: &[u8], limit: usize) -> Vec<CallObs> {
    let plan = plan_of(case);
    match &case.artefact {
        Artefact::Datum { .. } | Artefact::Raw { .. } | Artefact::Exhaustive { .. } | Artefact::Blocks { .. } => {
            datum_calls(b.schema.as_ref().unwrap(), bytes, &plan, limit, case.reader_schema)
        }
        Artefact::Single { .. } => {
            let schema = b.schema.as_ref().unwrap();
            vec![
                observe_call("single.read_value", bytes, &plan, limit, |src| {
                    let rd = GenericSingleObjectReader::builder().schema(schema.clone()).build().map_err(|e| e.to_string())?;
                    rd.read_value(src).map(|_| ()).map_err(|e| e.to_string())
                }),
                observe_call("single.read_deser", bytes, &plan, limit, |src| {
                    let rd = GenericSingleObjectReader::builder().schema(schema.clone()).build().map_err(|e| e.to_string())?;
                    rd.read_deser::<Discard>(src).map(|_| ()).map_err(|e| e.to_string())
                }),
            ]
        }
        Artefact::Container { .. } | Artefact::TightBlocks { .. } => {
            let schema = b.schema.as_ref().unwrap();
            let max_items = b.items + 8;
            let mut v = vec![observe_call("container.iter", bytes, &plan, limit, |src| {
                let mut rd = Reader::new(src).map_err(|e| format!("open: {e}"))?;
                drain(&mut rd, max_items)
            })];
            v.push(observe_call("container.deser_iter", bytes, &plan, limit, |src| {
                let rd = Reader::new(src).map_err(|e| format!("open: {e}"))?;
                drain(&mut rd.into_deser_iter::<Discard>(), max_items)
            }));
            if case.reader_schema {
                v.push(observe_call("container.iter+reader_schema", bytes, &plan, limit, |src| {
                    let rd = Reader::builder(src).reader_schema(schema).build().map_err(|e| format!("open: {e}"))?;
                    let mut last = Ok(());
                    for (i, item) in rd.enumerate() {
                        if i > max_items {
                            break;
                        }
                        if let Err(e) = item {
                            last = Err(e.to_string());
                        }
                    }
                    last
                }));
            }
            v
        }
        Artefact::Compressed { codec, .. } => {
            let c = codec.to_lib();
            vec![observe_call("codec.decompress", bytes, &plan, limit, |_src| {
                let mut v = bytes.to_vec();
                let r = c.decompress(&mut v).map_err(|e| e.to_string());
                if r.is_ok() {
                    delivered(v.len() as u64);
                }
                r
            })]
        }
    }
}

/// Heartbeat slots for the watchdog: run index + 1 per worker thread, 0 when idle.
pub static SLOTS: [AtomicU64; 64] = [const { AtomicU64::new(0) }; 64];
/// Per slot: number of library calls completed by the worker (a worker whose counter stands still
/// while it is inside a run is stuck in one call, whatever the other workers do).
pub static SLOT_TICKS: [AtomicU64; 64] = [const { AtomicU64::new(0) }; 64];
thread_local! {
    static MY_TICKS: std::cell::Cell<u64> = const { std::cell::Cell::new(0) };
}
fn tick_slot() {
    let slot = MY_SLOT.with(|s| *s);
    SLOT_TICKS[slot].fetch_add(1, Ordering::Relaxed);
}
pub static PROGRESS: AtomicU64 = AtomicU64::new(0);
static NEXT_SLOT: AtomicUsize = AtomicUsize::new(0);
thread_local! {
    static MY_SLOT: usize = NEXT_SLOT.fetch_add(1, Ordering::SeqCst) % 64;
}

fn run_case(case: &Case, ctx: &mut Ctx) -> Option<Failure> {
    let limit = process_limit();
    if limit != case.limit {
        // the cell is write-once: a case can only be judged in a process started with its limit
        return Some(Failure::new(
            "harness-limit-mismatch",
            "C05 harness-limit-mismatch".to_string(),
            format!("case wants limit {} but this process runs with {limit}", case.limit),
        ));
    }
    let slot = MY_SLOT.with(|s| *s);
    SLOTS[slot].store(ctx.run + 1, Ordering::Relaxed);
    alloc::CURRENT_RUN.with(|c| c.set(ctx.run));
    let r = run_case_inner(case, ctx, limit);
    SLOTS[slot].store(0, Ordering::Relaxed);
    alloc::CURRENT_RUN.with(|c| c.set(u64::MAX));
    r
}

fn run_case_inner(case: &Case, ctx: &mut Ctx, limit: usize) -> Option<Failure> {
    let Some(b) = build(&case.artefact) else {
        ctx.agg.count("scenario.unbuildable");
        return None;
    };
    let akind = case.artefact.kind();
    let lname = limit_name(limit);
    if let Artefact::Exhaustive { max_len, .. } = &case.artefact {
        // all byte strings of length <= max_len
        let schema = b.schema.as_ref().unwrap();
        let plan = SourcePlan::perfect();
        let mut buf: Vec<u8> = vec![];
        for len in 0..=(*max_len as usize) {
            let total: u64 = 256u64.pow(len as u32);
            for x in 0..total {
                buf.clear();
                for k in 0..len {
                    buf.push((x >> (8 * k)) as u8);
                }
                for o in datum_calls(schema, &buf, &plan, limit, false) {
                    ctx.eval();
                    PROGRESS.fetch_add(1, Ordering::Relaxed);
                    ctx.steps(o.source_calls);
                    if let Some(f) = judge_call(&o, buf.len(), limit, akind, 0) {
                        return Some(Failure { detail: format!("{} [bytes={}]", f.detail, crate::common::hex(&buf)), ..f });
                    }
                }
            }
        }
        ctx.agg.count("probe.exhaustive_short_strings_schema");
        ctx.agg.state(format!("{lname}|exhaustive|len<={max_len}"));
        ctx.ev("exhaustive");
        return None;
    }
    let mut bytes = b.bytes.clone();
    for d in &case.damages {
        apply(&mut bytes, &b.fields, d);
        ctx.agg.count(&format!("fault.{}", d.kind()));
    }
    if case.err_at.is_some() {
        ctx.agg.count("fault.read_err");
    }
    if case.eintr_every > 0 {
        ctx.agg.count("fault.read_eintr_policy");
    }
    if !matches!(case.chunk, Chunk::All) {
        ctx.agg.count("fault.short_read_policy");
    }
    ctx.ev(akind);
    ctx.ev_u(bytes.len() as u64);
    let calls = run_calls(case, &b, &bytes, limit);
    let dkind = case.damages.first().map(|d| d.kind()).unwrap_or("none");
    let codec = match &case.artefact {
        Artefact::Compressed { codec, .. } => Some(codec),
        _ => None,
    };
    let workspace = if matches!(case.artefact, Artefact::TightBlocks { .. }) && case.damages.is_empty() { TIGHT } else { codec_workspace(akind, &bytes, codec) };
    // an undamaged container holding one block that inflates past the limit: nothing of it may be delivered
    let bomb = match &case.artefact {
        Artefact::Container { blocks, codec, extra_meta, schema_override, .. }
            if *codec != CodecSpec::Null && case.damages.is_empty() && extra_meta.is_empty() && schema_override.is_none() && blocks.len() == 1 =>
        {
            matches!(blocks[0].as_slice(), [RV::Bytes(v)] if v.len() > limit)
        }
        _ => false,
    };
    if bomb {
        ctx.agg.count("probe.container_block_inflates_past_limit");
    }
    let mut first = None;
    for o in &calls {
        ctx.eval();
        PROGRESS.fetch_add(1, Ordering::Relaxed);
        ctx.steps(o.source_calls + o.visits);
        ctx.ev(o.outcome);
        ctx.agg.count(&format!("outcome.{}.{}", o.entry, o.outcome));
        if o.outcome == "limit_rejected" {
            ctx.agg.count(&format!("probe.limit_guard_fired.{lname}"));
        }
        ctx.agg.state(format!("{lname}|{}|{akind}|{dkind}|{}", o.entry, o.outcome));
        if o.visit_inconclusive {
            ctx.agg.count("probe.visit_cap_hit_below_bound(inconclusive)");
        }
        if first.is_none() {
            first = judge_call(o, bytes.len(), limit, akind, workspace);
        }
        if first.is_none() && o.entry == "codec.decompress" && o.outcome == "ok" && o.delivered as usize > limit {
            first = Some(Failure::new(
                "decompression-cap",
                format!("C05 decompression-cap entry={} artefact={akind}", o.entry),
                format!("{} returned {} decompressed bytes from a {}-byte block with the limit at {limit}", o.entry, o.delivered, bytes.len()),
            ));
        }
        if first.is_none() && bomb && o.delivered > 0 {
            first = Some(Failure::new(
                "decompression-cap",
                format!("C05 decompression-cap entry={} artefact={akind}", o.entry),
                format!("{} delivered {} item(s) of a block that inflates to more than the limit of {limit} bytes", o.entry, o.delivered),
            ));
        }
    }
    first
}

pub fn limit_name(limit: usize) -> &'static str {
    match limit {
        4096 => "4KiB",
        65536 => "64KiB",
        1048576 => "1MiB",
        DEFAULT_LIMIT => "default",
        _ => "other",
    }
}

pub struct C05;

fn hostile_value(r: &mut Rng, limit: usize) -> i64 {
    let l = limit as i64;
    *r.pick(&[
        l + 1,
        l,
        l - 1,
        l * 2,
        l / 56 + 1,
        l / 80 + 1,
        i64::MAX,
        i64::MAX / 2,
        1 << 31,
        (1 << 31) - 1,
        1 << 32,
        1 << 40,
        -1,
        -2,
        i64::MIN,
        i64::MIN + 1,
        -(1 << 40),
        -l,
        65536,
        1_000_000,
        0,
    ])
}

/// An embedded schema whose field default is odd for the field's type: the reader checks defaults
/// while it parses the header, so this is decoding work on untrusted text too.
fn hostile_default_schema(r: &mut Rng) -> String {
    let (ty, default): (&str, &str) = *r.pick(&[
        // 12 UTF-8 bytes but fewer than 12 characters, for a 12-byte fixed
        (r#"{"type":"fixed","name":"D","size":12,"logicalType":"duration"}"#, r#""ÿÿÿÿÿÿ""#),
        (r#"{"type":"fixed","name":"D","size":12,"logicalType":"duration"}"#, r#""éabcdefghij""#),
        (r#"{"type":"fixed","name":"D","size":12,"logicalType":"duration"}"#, r#""\u0000\u0001\u0002""#),
        (r#"{"type":"fixed","name":"F","size":4}"#, r#""ÿÿ""#),
        (r#"{"type":"fixed","name":"F","size":4}"#, r#""\u0100\u0101\u0102\u0103""#),
        (r#"{"type":"fixed","name":"U","size":16,"logicalType":"uuid"}"#, r#""ÿÿÿÿÿÿÿÿ""#),
        (r#"{"type":"fixed","name":"M","size":3,"logicalType":"decimal","precision":5,"scale":2}"#, r#""\u00ff\u00ff""#),
        (r#"{"type":"bytes","logicalType":"decimal","precision":4,"scale":1}"#, r#""""#),
        (r#"{"type":"bytes","logicalType":"big-decimal"}"#, r#""\u0002""#),
        (r#"{"type":"string","logicalType":"uuid"}"#, r#""not-a-uuid""#),
        (r#"{"type":"enum","name":"E","symbols":["A","B"]}"#, r#""C""#),
        (r#"{"type":"enum","name":"E","symbols":["A","B"],"default":"Z"}"#, r#""A""#),
        (r#"["null","long"]"#, r#"7"#),
        (r#"{"type":"array","items":"long"}"#, r#"[1,"x",null]"#),
        (r#"{"type":"map","values":"long"}"#, r#"{"k":{"deep":[1,2]}}"#),
        (r#"{"type":"record","name":"In","fields":[{"name":"x","type":"long"},{"name":"y","type":"string"}]}"#, r#"{"x":1}"#),
        (r#"{"type":"long","logicalType":"timestamp-millis"}"#, r#"1e400"#),
        (r#""int""#, r#"99999999999999999999"#),
        (r#""float""#, r#""NaN""#),
        (r#""bytes""#, r#""\ud800""#),
    ]);
    format!(r#"{{"type":"record","name":"R","fields":[{{"name":"a","type":"long"}},{{"name":"d","type":{ty},"default":{default}}}]}}"#)
}

fn hostile_schema(r: &mut Rng, limit: usize) -> String {
    if r.chance(1, 2) {
        return hostile_default_schema(r);
    }
    let size: u64 = *r.pick(&[limit as u64 + 1, limit as u64 * 8 + 7, 1 << 31, 1 << 33, 1 << 40, (1u64 << 62) + 3, u32::MAX as u64, i64::MAX as u64]);
    match r.below(5) {
        0 => format!(r#"{{"type":"fixed","name":"F","size":{size}}}"#),
        1 => format!(r#"{{"type":"record","name":"R","fields":[{{"name":"a","type":"long"}},{{"name":"f","type":{{"type":"fixed","name":"F","size":{size}}}}}]}}"#),
        2 => format!(r#"{{"type":"array","items":{{"type":"fixed","name":"F","size":{size}}}}}"#),
        3 => format!(r#"{{"type":"fixed","name":"D","size":{size},"logicalType":"decimal","precision":4,"scale":1}}"#),
        _ => format!(r#"["null",{{"type":"fixed","name":"F","size":{size}}}]"#),
    }
}

impl Property for C05 {
    type Case = Case;
    fn id(&self) -> &'static str {
        "C05"
    }
    fn level(&self) -> &'static str {
        "exploration"
    }
    fn rule(&self) -> String {
        "One child process per allocation limit (4 KiB, 64 KiB, 1 MiB, default 512 MiB; the limit is a process-wide write-once cell). \
         Seeds sample a valid stored artefact (binary datum, single-object message, container file with embedded schema over all six \
         codecs, compressed block, a container holding one block that inflates to 5 kB-6 MB, an array/map written as 2-64 blocks each \
         within the limit whose sum is not, equal blocks each within the limit with a tight bound) built by the reference writer, 0-3 \
         storage faults (truncate, flip bit, set byte, duplicate / drop / zero a range, replace a length/count/size/index varint by a \
         hostile value around the limit or at the integer extremes, re-frame a block so that it declares more or fewer objects than it \
         holds), hostile header metadata (codec name swap, empty or odd avro.codec.compression_level, embedded schema declaring a huge \
         fixed size), a read-chunk policy, EINTR every k-th call and an optional hard read error; a minority of runs use seeded random \
         bytes, and all byte strings of length <= 2 (quick) / <= 3 (thorough) per schema are enumerated for the datum entry points. One \
         evaluation = one library call (datum read_value with/without reader schema, read_deser into a non-retaining sink, single-object \
         read_value/read_deser, Reader::new + both iterators with a bounded number of next() calls, Codec::decompress) inside an \
         allocator window and a panic guard over a step-budgeted source. distinct_nontrivial counts distinct (limit, entry point, \
         artefact kind, first fault kind, outcome class) tuples."
            .into()
    }
    fn assumptions(&self) -> Vec<String> {
        vec![
            "over-allocation bound per call: largest single request <= max(4*limit + 64 KiB + 8*input_len, fixed codec workspace: zstd 256 KiB, bzip2 4 MiB) (slack for HashMap bucket rounding, Vec doubling in read_to_end and element size); limit + 1 KiB for the equal-blocks artefact".into(),
            "step budget per call: source calls <= 4*input_len + 4096, visitor callbacks <= 64*(input_len + 2)*(limit + 64); a call cut off at 20M callbacks below that bound is counted as inconclusive".into(),
            "allocations made by the C codec libraries through malloc are not seen by the Rust global allocator".into(),
            "nesting depth of generated data is bounded (unbounded recursion depth is an acknowledged non-goal of the library)".into(),
        ]
    }
    fn components(&self) -> J {
        json!({"real": ["GenericDatumReader", "SchemaAwareDeserializer", "Reader / ReaderDeser / Block incl. header + embedded schema parsing", "GenericSingleObjectReader", "Codec::decompress + codec crates", "util::max_allocation_bytes (one value per child process)"],
               "simulated": ["bytes at rest (storage faults)", "SimSource (chunking, EINTR, hard error, step budget)", "CountingAlloc global allocator (per-call window, hard cap)", "process boundary (child per limit, abort / hang detection)"],
               "reference": ["refimpl writers that produce the valid artefacts"]})
    }
    fn runs(&self, tier: Tier) -> u64 {
        // per limit
        match tier {
            Tier::Quick => 60_000,
            Tier::Thorough => 4_000_000,
        }
    }
    fn required_probes(&self) -> Vec<&'static str> {
        vec![]
    }

    fn generate(&self, rng: &mut Rng, run: u64, tier: Tier) -> Option<Case> {
        let limit = process_limit();
        let mut wr = rng.fork("workload");
        let mut dr = rng.fork("damage");
        let mut sr = rng.fork("source");
        // a handful of exhaustive short-string runs per batch
        if run < 3 {
            let schema = match run {
                0 => gen_schema(&mut wr, 2, true).root,
                1 => RS::Array(Box::new(RS::Union(vec![RS::Null, RS::String, RS::Map(Box::new(RS::Bytes))]))),
                _ => gen_schema(&mut wr, 1, true).root,
            };
            parse_rs(&schema)?;
            let max_len = if tier == Tier::Thorough && limit != DEFAULT_LIMIT { 3 } else { 2 };
            return Some(Case {
                limit,
                artefact: Artefact::Exhaustive { schema, max_len },
                damages: vec![],
                chunk: Chunk::All,
                eintr_every: 0,
                err_at: None,
                reader_schema: false,
                salt: 0,
            });
        }
        let depth = *wr.pick(&[1u32, 2, 2, 3]);
        let schema = gen_schema(&mut wr, depth, true).root;
        let p = parse_rs(&schema)?;
        let mut vg = ValueGen::new(&p.defs);
        vg.max_blob = *wr.pick(&[8usize, 60, 400]);
        let artefact = match wr.below(12) {
            0..=3 => Artefact::Datum { value: vg.gen(&mut wr, &schema, 0), schema },
            4 => Artefact::Single { value: vg.gen(&mut wr, &schema, 0), schema },
            5..=8 if wr.chance(1, 40) => {
                // a block that inflates past the small limits (decompression bomb inside a file)
                let n = *wr.pick(&[5000usize, 70_000, 70_000, 1_200_000, 1_200_000, 6_000_000]);
                let codec = match wr.below(6) {
                    0 => CodecSpec::Deflate(-1),
                    1 => CodecSpec::Snappy,
                    2 => CodecSpec::Zstd(1),
                    3 => CodecSpec::Bzip2(1),
                    4 => CodecSpec::Bzip2(9),
                    _ => CodecSpec::Xz(0),
                };
                return Some(Case {
                    limit,
                    artefact: Artefact::Container { schema: RS::Bytes, codec, blocks: vec![vec![RV::Bytes(vec![*wr.pick(&[0u8, 7, 255]); n])]], extra_meta: vec![], schema_override: None },
                    damages: vec![],
                    chunk: if sr.chance(1, 2) { Chunk::All } else { Chunk::Hashed { salt: sr.next_u64(), max: 4096 } },
                    eintr_every: *sr.pick(&[0u64, 0, 5]),
                    err_at: None,
                    reader_schema: sr.chance(1, 3),
                    salt: sr.next_u64(),
                });
            }
            5..=8 => {
                let nb = wr.range(1, 3) as usize;
                let blocks = (0..nb).map(|_| (0..wr.range(1, 4)).map(|_| vg.gen(&mut wr, &schema, 0)).collect()).collect();
                let codec = match wr.below(8) {
                    0..=1 => CodecSpec::Null,
                    2 => CodecSpec::Deflate(-1),
                    3 => CodecSpec::Snappy,
                    4 => CodecSpec::Zstd(1),
                    5 => CodecSpec::Bzip2(1),
                    6 => CodecSpec::Xz(0),
                    _ => CodecSpec::Deflate(1),
                };
                let mut extra_meta = vec![];
                match dr.below(10) {
                    0 => extra_meta.push(("avro.codec.compression_level".to_string(), vec![])),
                    1 => extra_meta.push(("avro.codec.compression_level".to_string(), vec![*dr.pick(&[0u8, 1, 9, 10, 22, 99, 255])])),
                    2 => extra_meta.push(("avro.codec".to_string(), dr.pick(&["bzip2", "xz", "zstandard", "snappy", "deflate", "null", "lz4", ""]).as_bytes().to_vec())),
                    3 => {
                        extra_meta.push(("avro.codec".to_string(), dr.pick(&["bzip2", "xz", "zstandard"]).as_bytes().to_vec()));
                        extra_meta.push(("avro.codec.compression_level".to_string(), vec![]));
                    }
                    4 => extra_meta.push(("user.note".to_string(), dr.bytes(5))),
                    _ => {}
                }
                let schema_override = if dr.chance(1, 8) { Some(hostile_schema(&mut dr, limit)) } else { None };
                Artefact::Container { schema, codec, blocks, extra_meta, schema_override }
            }
            9 => {
                let codec = match wr.below(5) {
                    0 => CodecSpec::Deflate(-1),
                    1 => CodecSpec::Snappy,
                    2 => CodecSpec::Zstd(1),
                    3 => CodecSpec::Bzip2(1),
                    _ => CodecSpec::Xz(0),
                };
                // mostly highly compressible data: a small block that inflates past small limits
                let n = *wr.pick(&[0usize, 10, 5000, 70_000, 300_000, 1_200_000]);
                let raw = if wr.chance(3, 4) { vec![*wr.pick(&[0u8, 7, 255]); n] } else { wr.bytes(n.min(5000)) };
                Artefact::Compressed { codec, raw }
            }
            11 if limit != DEFAULT_LIMIT && wr.chance(1, 3) => {
                return Some(Case {
                    limit,
                    artefact: Artefact::TightBlocks { size: limit * *wr.pick(&[9usize, 9, 7, 10]) / 10, blocks: wr.range(2, 4) as usize },
                    damages: vec![],
                    chunk: if sr.chance(1, 2) { Chunk::All } else { Chunk::Hashed { salt: sr.next_u64(), max: 4096 } },
                    eintr_every: *sr.pick(&[0u64, 0, 5]),
                    err_at: None,
                    reader_schema: false,
                    salt: sr.next_u64(),
                });
            }
            10 if limit != DEFAULT_LIMIT && wr.chance(1, 2) => {
                // per-block counts at the edge of the limit, sums beyond it
                let l = limit.min(1 << 20) as i64;
                let (schema, unit, data_per_item) = match wr.below(4) {
                    0 | 1 => (RS::Array(Box::new(RS::Null)), 56i64, 0usize),
                    2 => (RS::Map(Box::new(RS::Null)), 80, 2),
                    _ => (RS::Array(Box::new(RS::Long)), 56, 1),
                };
                let base = match wr.below(4) {
                    0 => l / unit,
                    1 => (l / unit - 1).max(1),
                    2 => (l / unit / 2).max(1),
                    _ => l.max(1),
                };
                let mut k = *wr.pick(&[2usize, 3, 8, 24, 40, 64]);
                if data_per_item > 0 {
                    // items that occupy bytes: keep the input below ~256 KiB
                    k = k.min(((256 << 10) / (base as usize * data_per_item).max(1)).max(2));
                }
                Artefact::Blocks { schema, counts: vec![base; k], neg: wr.chance(1, 3) }
            }
            _ => {
                let n = wr.usize_below(24);
                Artefact::Raw { schema, bytes: wr.bytes(n) }
            }
        };
        let nd = match &artefact {
            Artefact::Raw { .. } => 0,
            Artefact::Blocks { .. } => *dr.pick(&[0usize, 0, 0, 1]),
            _ => *dr.pick(&[0usize, 1, 1, 1, 2, 3]),
        };
        let approx_len = 64 + 64 * nd;
        let mut damages = vec![];
        if matches!(artefact, Artefact::Container { .. }) && dr.chance(1, 4) {
            damages.push(Damage::BlockRewrite {
                block: dr.usize_below(4),
                count: *dr.pick(&[1i64, 1, 2, 3, 5, 64, 1000, 0, -1]),
                keep_permille: *dr.pick(&[0u32, 0, 500, 1000, 1000, 999]),
            });
        }
        for _ in 0..nd {
            damages.push(match dr.below(10) {
                0 => Damage::Truncate(dr.usize_below(approx_len * 8)),
                1..=2 => Damage::Flip(dr.next_u64() as usize, dr.below(8) as u8),
                3 => Damage::Set(dr.next_u64() as usize, *dr.pick(&[0u8, 1, 0x7f, 0x80, 0xff, 0xfe])),
                4 => Damage::Dup { from: dr.next_u64() as usize, len: dr.usize_below(40) + 1 },
                5 => Damage::Drop { from: dr.next_u64() as usize, len: dr.usize_below(20) + 1 },
                6 => Damage::Zero { from: dr.next_u64() as usize, len: dr.usize_below(24) + 1 },
                _ => Damage::Inflate { field: dr.next_u64() as usize, value: hostile_value(&mut dr, limit) },
            });
        }
        let chunk = match sr.below(4) {
            0 => Chunk::Const(1),
            1 => Chunk::Hashed { salt: sr.next_u64(), max: 9 },
            _ => Chunk::All,
        };
        Some(Case {
            limit,
            artefact,
            damages,
            chunk,
            eintr_every: *sr.pick(&[0u64, 0, 0, 2, 5]),
            err_at: if sr.chance(1, 8) { Some(sr.below(200)) } else { None },
            reader_schema: sr.chance(1, 3),
            salt: sr.next_u64(),
        })
    }

    fn execute(&self, case: &Case, ctx: &mut Ctx) -> Option<Failure> {
        run_case(case, ctx)
    }

    fn shrink(&self, case: &Case, _failure: &Failure) -> Vec<Case> {
        let mut out = vec![];
        if let Artefact::Exhaustive { .. } = &case.artefact {
            return out;
        }
        for i in (0..case.damages.len()).rev() {
            let mut c = case.clone();
            c.damages.remove(i);
            out.push(c);
        }
        if case.err_at.is_some() {
            let mut c = case.clone();
            c.err_at = None;
            out.push(c);
        }
        if case.eintr_every != 0 {
            let mut c = case.clone();
            c.eintr_every = 0;
            out.push(c);
        }
        if case.chunk != Chunk::All {
            let mut c = case.clone();
            c.chunk = Chunk::All;
            out.push(c);
        }
        if case.reader_schema {
            let mut c = case.clone();
            c.reader_schema = false;
            out.push(c);
        }
        match &case.artefact {
            Artefact::Container { schema, codec, blocks, extra_meta, schema_override } => {
                if blocks.len() > 1 {
                    let mut c = case.clone();
                    c.artefact = Artefact::Container {
                        schema: schema.clone(),
                        codec: codec.clone(),
                        blocks: blocks[..1].to_vec(),
                        extra_meta: extra_meta.clone(),
                        schema_override: schema_override.clone(),
                    };
                    out.push(c);
                }
                if blocks.iter().any(|b| b.len() > 1) {
                    let mut c = case.clone();
                    c.artefact = Artefact::Container {
                        schema: schema.clone(),
                        codec: codec.clone(),
                        blocks: blocks.iter().map(|b| b[..1].to_vec()).collect(),
                        extra_meta: extra_meta.clone(),
                        schema_override: schema_override.clone(),
                    };
                    out.push(c);
                }
                for i in 0..extra_meta.len() {
                    let mut e = extra_meta.clone();
                    e.remove(i);
                    let mut c = case.clone();
                    c.artefact = Artefact::Container { schema: schema.clone(), codec: codec.clone(), blocks: blocks.clone(), extra_meta: e, schema_override: schema_override.clone() };
                    out.push(c);
                }
                if schema_override.is_some() {
                    let mut c = case.clone();
                    c.artefact = Artefact::Container { schema: schema.clone(), codec: codec.clone(), blocks: blocks.clone(), extra_meta: extra_meta.clone(), schema_override: None };
                    out.push(c);
                }
                if *codec != CodecSpec::Null {
                    let mut c = case.clone();
                    c.artefact = Artefact::Container { schema: schema.clone(), codec: CodecSpec::Null, blocks: blocks.clone(), extra_meta: extra_meta.clone(), schema_override: schema_override.clone() };
                    out.push(c);
                }
                if *schema != RS::Long {
                    let mut c = case.clone();
                    c.artefact = Artefact::Container {
                        schema: RS::Long,
                        codec: codec.clone(),
                        blocks: blocks.iter().map(|b| b.iter().map(|_| RV::Long(3)).collect()).collect(),
                        extra_meta: extra_meta.clone(),
                        schema_override: schema_override.clone(),
                    };
                    out.push(c);
                }
            }
            Artefact::Datum { schema, value } => {
                for (s2, mut v2) in crate::c13::shrink_schema_values(schema, std::slice::from_ref(value)) {
                    if let Some(v) = v2.pop() {
                        let mut c = case.clone();
                        c.artefact = Artefact::Datum { schema: s2, value: v };
                        out.push(c);
                    }
                }
            }
            Artefact::Single { schema, value } => {
                for (s2, mut v2) in crate::c13::shrink_schema_values(schema, std::slice::from_ref(value)) {
                    if let Some(v) = v2.pop() {
                        let mut c = case.clone();
                        c.artefact = Artefact::Single { schema: s2, value: v };
                        out.push(c);
                    }
                }
            }
            Artefact::Raw { schema, bytes } => {
                for i in 0..bytes.len() {
                    let mut b = bytes.clone();
                    b.remove(i);
                    let mut c = case.clone();
                    c.artefact = Artefact::Raw { schema: schema.clone(), bytes: b };
                    out.push(c);
                }
            }
            Artefact::Compressed { codec, raw } => {
                if raw.len() > 1 {
                    let mut c = case.clone();
                    c.artefact = Artefact::Compressed { codec: codec.clone(), raw: raw[..raw.len() / 2].to_vec() };
                    out.push(c);
                }
            }
            Artefact::Exhaustive { .. } => {}
            Artefact::TightBlocks { size, blocks } => {
                if *blocks > 2 {
                    let mut c = case.clone();
                    c.artefact = Artefact::TightBlocks { size: *size, blocks: 2 };
                    out.push(c);
                }
            }
            Artefact::Blocks { schema, counts, neg } => {
                if counts.len() > 2 {
                    let mut c = case.clone();
                    c.artefact = Artefact::Blocks { schema: schema.clone(), counts: counts[..counts.len() / 2 + 1].to_vec(), neg: *neg };
                    out.push(c);
                    let mut c = case.clone();
                    c.artefact = Artefact::Blocks { schema: schema.clone(), counts: counts[..counts.len() - 1].to_vec(), neg: *neg };
                    out.push(c);
                }
                if *neg {
                    let mut c = case.clone();
                    c.artefact = Artefact::Blocks { schema: schema.clone(), counts: counts.clone(), neg: false };
                    out.push(c);
                }
            }
        }
        out
    }

    fn sample(&self, case: &Case) -> J {
        let a = match &case.artefact {
            Artefact::Container { schema, codec, blocks, extra_meta, schema_override } => json!({
                "artefact": "container", "schema": to_json(schema), "codec": codec, "items_per_block": blocks.iter().map(|b| b.len()).collect::<Vec<_>>(),
                "extra_meta_keys": extra_meta.iter().map(|(k, v)| format!("{k}={}B", v.len())).collect::<Vec<_>>(), "hostile_embedded_schema": schema_override }),
            Artefact::Datum { schema, .. } => json!({"artefact": "datum", "schema": to_json(schema)}),
            Artefact::Single { schema, .. } => json!({"artefact": "single_object", "schema": to_json(schema)}),
            Artefact::Compressed { codec, raw } => json!({"artefact": "compressed_block", "codec": codec, "raw_len": raw.len()}),
            Artefact::Raw { schema, bytes } => json!({"artefact": "raw_bytes", "schema": to_json(schema), "len": bytes.len()}),
            Artefact::Exhaustive { schema, max_len } => json!({"artefact": "all byte strings", "max_len": max_len, "schema": to_json(schema)}),
            Artefact::TightBlocks { size, blocks } => json!({"artefact": "equal blocks within the limit (tight bound)", "block_size": size, "blocks": blocks}),
            Artefact::Blocks { schema, counts, neg } => json!({"artefact": "multi-block collection", "schema": to_json(schema), "blocks": counts.len(), "count_per_block": counts.first(), "negative_counts": neg}),
        };
        json!({"limit": case.limit, "input": a, "damages": case.damages, "chunk": case.chunk, "eintr_every": case.eintr_every, "err_at": case.err_at, "reader_schema": case.reader_schema})
    }
}

// ------------------------------------------------------------------------------------------------
// Process-level driver: one child per limit; aborts and hangs are observed from outside.

#[derive(Serialize, Deserialize, Default)]
struct ChildReport {
    counters: std::collections::BTreeMap<String, u64>,
    distinct: Vec<String>,
    digest: u64,
    evaluations: u64,
    steps: u64,
    samples: Vec<J>,
    runs: u64,
    skipped: u64,
    wall_s: f64,
    /// shrunk failures: (run, case, failure)
    failures: Vec<(u64, J, Failure)>,
}

/// Child entry: `avrosim c05child <limit> <seed> <tier> <from> <to> <outfile>`
pub fn child_main(args: &[String]) -> i32 {
    let limit: usize = args[0].parse().unwrap();
    let seed: u64 = args[1].parse().unwrap();
    let tier = if args[2] == "thorough" { Tier::Thorough } else { Tier::Quick };
    let from: u64 = args[3].parse().unwrap();
    let to: u64 = args[4].parse().unwrap();
    let outfile = &args[5];
    if !install_limit(limit) {
        println!("HARNESS-ERROR cannot install allocation limit {limit}");
        return 2;
    }
    // watchdog (backstop for loops that touch neither seam): a worker that stays inside one
    // library call of one run for 240 s is a hang, whatever the other workers do (generous: on an
    // overloaded machine zeroing a 512 MiB buffer under the default limit can take many seconds)
    std::thread::spawn(|| {
        let mut last: Vec<(u64, u64, std::time::Instant)> = (0..64).map(|_| (0, 0, std::time::Instant::now())).collect();
        loop {
            std::thread::sleep(std::time::Duration::from_millis(500));
            for i in 0..64 {
                let run = SLOTS[i].load(Ordering::Relaxed);
                let ticks = SLOT_TICKS[i].load(Ordering::Relaxed);
                if run == 0 || (run, ticks) != (last[i].0, last[i].1) {
                    last[i] = (run, ticks, std::time::Instant::now());
                } else if last[i].2.elapsed().as_secs() >= 240 {
                    eprintln!("HANG run={}", run - 1);
                    std::process::exit(3);
                }
            }
        }
    });
    let p = C05;
    let dir = harness::verif_dir();
    let known: Vec<String> = harness::load_known(&format!("{dir}/known_findings.txt"))
        .into_iter()
        .filter(|k| k.property == "C05")
        .map(|k| k.signature)
        .collect();
    let nworkers = if limit == DEFAULT_LIMIT { harness::workers().min(6) } else { harness::workers() };
    let res = harness::run_batch_range(&p, seed, tier, from, to, nworkers, &known);
    let mut rep = ChildReport {
        counters: res.agg.counters.clone(),
        distinct: res.agg.distinct.iter().cloned().collect(),
        digest: res.agg.digest,
        evaluations: res.agg.evaluations,
        steps: res.agg.steps,
        samples: res.agg.samples.values().cloned().collect(),
        runs: to - from,
        skipped: res.gen_skipped,
        wall_s: res.wall_s,
        failures: vec![],
    };
    let mut seen = std::collections::BTreeSet::new();
    for f in res.found.iter().take(12) {
        let (case, failure, _) = harness::shrink_case(&p, f.case.clone(), f.failure.clone(), 400);
        if seen.insert(failure.signature.clone()) {
            rep.failures.push((f.run, serde_json::to_value(&case).unwrap(), failure));
        }
    }
    std::fs::write(outfile, serde_json::to_string(&rep).unwrap()).expect("write child report");
    0
}

/// Parent entry: full check over all limits.
pub fn check(seed: u64, tier: Tier) -> i32 {
    let t0 = std::time::Instant::now();
    let p = C05;
    let dir = harness::verif_dir();
    let exe = std::env::current_exe().unwrap();
    let nruns = std::env::var("VERIF_RUNS").ok().and_then(|s| s.parse().ok()).unwrap_or_else(|| p.runs(tier));
    let known = harness::load_known(&format!("{dir}/known_findings.txt"));
    let mut agg = Agg::default();
    let mut failures: Vec<(usize, u64, J, Failure)> = vec![];
    let mut harness_error = false;
    let mut children = 0u64;
    let mut total_runs = 0u64;
    let mut skipped = 0u64;
    let _ = std::fs::create_dir_all(format!("{dir}/target/c05"));
    for limit in LIMITS {
        // the default limit allows half-gigabyte buffers: fewer, heavier runs
        let n = if limit == DEFAULT_LIMIT { (nruns / 6).max(50) } else { nruns };
        let mut from = 0u64;
        let mut restarts = 0;
        while from < n && restarts < 6 {
            let outfile = format!("{dir}/target/c05/report-{limit}-{from}.json");
            let _ = std::fs::remove_file(&outfile);
            children += 1;
            let out = std::process::Command::new(&exe)
                .args(["c05child", &limit.to_string(), &seed.to_string(), tier.name(), &from.to_string(), &n.to_string(), &outfile])
                .output();
            let out = match out {
                Ok(o) => o,
                Err(e) => {
                    println!("HARNESS-ERROR cannot spawn child: {e}");
                    harness_error = true;
                    break;
                }
            };
            let stderr = String::from_utf8_lossy(&out.stderr).to_string();
            if out.status.code() == Some(0) {
                match std::fs::read_to_string(&outfile).ok().and_then(|s| serde_json::from_str::<ChildReport>(&s).ok()) {
                    Some(rep) => {
                        for (k, v) in rep.counters {
                            *agg.counters.entry(k).or_insert(0) += v;
                        }
                        for d in rep.distinct {
                            agg.distinct.insert(d);
                        }
                        agg.digest = agg.digest.wrapping_add(rep.digest);
                        agg.evaluations += rep.evaluations;
                        agg.steps += rep.steps;
                        for (i, s) in rep.samples.into_iter().enumerate() {
                            agg.samples.insert(limit as u64 * 10 + i as u64, s);
                        }
                        total_runs += rep.runs;
                        skipped += rep.skipped;
                        for (run, case, f) in rep.failures {
                            failures.push((limit, run, case, f));
                        }
                    }
                    None => {
                        println!("HARNESS-ERROR child for limit {limit} wrote no readable report");
                        harness_error = true;
                    }
                }
                break;
            }
            // the child died: abort (allocation refused / stack overflow) or hang
            let find = |tag: &str| -> Option<u64> {
                stderr.lines().filter(|l| l.starts_with(tag)).filter_map(|l| l.split("run=").nth(1)).filter_map(|s| s.split_whitespace().next()?.parse().ok()).next()
            };
            let (class, run) = if let Some(r) = find("ALLOC-ABORT") {
                ("abort-huge-allocation", r)
            } else if let Some(r) = find("HANG") {
                ("hang", r)
            } else {
                println!("HARNESS-ERROR child for limit {limit} died without naming a run: status {:?}\n{}", out.status, stderr.lines().rev().take(5).collect::<Vec<_>>().join("\n"));
                harness_error = true;
                break;
            };
            // regenerate the case of that run (generation depends only on seed, run and limit)
            PROCESS_LIMIT.store(limit, Ordering::SeqCst);
            let mut rng = Rng::for_run(seed, p.id(), run);
            if let Some(case) = p.generate(&mut rng, run, tier) {
                let detail = stderr.lines().find(|l| l.starts_with("ALLOC-ABORT") || l.starts_with("HANG")).unwrap_or("").to_string();
                let akind = case.artefact.kind();
                failures.push((
                    limit,
                    run,
                    serde_json::to_value(&case).unwrap(),
                    Failure::new(class, format!("C05 {class} artefact={akind}"), format!("the process running this input with the limit at {limit} died: {detail}")),
                ));
            }
            total_runs += run.saturating_sub(from) + 1;
            from = run + 1;
            restarts += 1;
        }
    }
    // report
    let mut violations = 0;
    let mut known_hits = std::collections::BTreeMap::new();
    let mut reported = std::collections::BTreeSet::new();
    for k in known.iter().filter(|k| k.property == "C05") {
        if agg.counters.get(&format!("known.{}", k.signature)).copied().unwrap_or(0) > 0 {
            known_hits.insert(k.signature.clone(), k.text.clone());
        }
    }
    for (n, (limit, run, case, f)) in failures.iter().enumerate() {
        if let Some(k) = known.iter().find(|k| k.property == "C05" && k.signature == f.signature) {
            known_hits.insert(f.signature.clone(), k.text.clone());
            continue;
        }
        if !reported.insert(f.signature.clone()) || reported.len() > 8 {
            continue;
        }
        let _ = std::fs::create_dir_all(format!("{dir}/replays"));
        let path = format!("{dir}/replays/C05-{seed}-{n}.json");
        let doc = json!({
            "property": "C05", "seed": seed, "run_index": run, "limit": limit, "harness_version": harness::HARNESS_VERSION,
            "violation": {"class": f.class, "signature": f.signature, "detail": f.detail},
            "case": case,
        });
        std::fs::write(&path, serde_json::to_string_pretty(&doc).unwrap()).expect("write replay");
        let code = replay_in_child_echo(&path, false);
        if code == 1 {
            violations += 1;
            println!("VIOLATION property=C05 replay={path}");
            println!("  class={} signature={} detail={}", f.class, f.signature, f.detail);
        } else {
            harness_error = true;
            println!("HARNESS-ERROR property=C05 replay={path} did not reproduce in a fresh process (exit {code})");
        }
    }
    for (sig, text) in &known_hits {
        println!("KNOWN-FINDING: property=C05 {text} [{sig}]");
    }
    let wall = t0.elapsed().as_secs_f64();
    let mut missing = vec![];
    for l in ["4KiB", "64KiB", "1MiB"] {
        if agg.counters.get(&format!("probe.limit_guard_fired.{l}")).copied().unwrap_or(0) == 0 {
            missing.push(format!("probe.limit_guard_fired.{l}"));
        }
    }
    let pick = |prefix: &str| -> std::collections::BTreeMap<&String, &u64> { agg.counters.iter().filter(|(k, _)| k.starts_with(prefix)).collect() };
    let ev = json!({
        "property_id": "C05", "tier": tier.name(), "seed": seed, "level": p.level(),
        "coverage": {
            "evaluations": agg.evaluations,
            "distinct_nontrivial": agg.distinct.len(),
            "rule": p.rule(),
            "samples": agg.samples.values().take(6).collect::<Vec<_>>(),
            "distinct_state_examples": agg.distinct.iter().take(12).collect::<Vec<_>>(),
            "simulated_runs": total_runs - skipped,
            "generator_skipped": skipped,
            "simulated_steps": agg.steps,
            "child_processes": children,
            "limits": LIMITS,
            "runs_per_hour": if wall > 0.0 { (total_runs as f64 / wall * 3600.0) as u64 } else { 0 },
            "evaluations_per_hour": if wall > 0.0 { (agg.evaluations as f64 / wall * 3600.0) as u64 } else { 0 },
            "faults_fired": pick("fault."),
            "probes": pick("probe."),
            "outcomes_per_entry_point": pick("outcome."),
            "probes_stuck_at_zero": missing,
            "batch_digest": format!("{:016x}", agg.digest),
            "components": p.components(),
            "known_findings_hit": known_hits.keys().collect::<Vec<_>>(),
        },
        "assumptions": p.assumptions(),
        "wall_s": wall,
        "violations": violations,
    });
    let _ = std::fs::create_dir_all(format!("{dir}/evidence"));
    std::fs::write(format!("{dir}/evidence/C05.json"), serde_json::to_string_pretty(&ev).unwrap()).expect("write evidence");
    println!(
        "C05 {} seed={seed} runs={total_runs} children={children} evaluations={} distinct={} violations={violations} known={} wall={wall:.1}s digest={:016x}",
        tier.name(),
        agg.evaluations,
        agg.distinct.len(),
        known_hits.len(),
        agg.digest
    );
    if violations > 0 {
        1
    } else if harness_error {
        2
    } else {
        0
    }
}

/// Execute one recorded case in a fresh grandchild with the case's limit. Returns 1 if the
/// violation reproduces (including by abort or hang), 0 if not, 2 on harness trouble.
pub fn replay_in_child(path: &str) -> i32 {
    replay_in_child_echo(path, true)
}

pub fn replay_in_child_echo(path: &str, echo: bool) -> i32 {
    let exe = std::env::current_exe().unwrap();
    let out = match std::process::Command::new(exe).args(["c05exec", path]).output() {
        Ok(o) => o,
        Err(_) => return 2,
    };
    let stderr = String::from_utf8_lossy(&out.stderr);
    if echo {
        print!("{}", String::from_utf8_lossy(&out.stdout));
    }
    match out.status.code() {
        Some(1) => 1,
        Some(0) => 0,
        Some(3) => {
            if echo {
                println!("VIOLATION property=C05 replay={path}\n  class=hang detail={}", stderr.lines().find(|l| l.starts_with("HANG")).unwrap_or(""));
            }
            1
        }
        Some(2) => 2,
        _ => {
            if echo {
                if let Some(l) = stderr.lines().find(|l| l.starts_with("ALLOC-ABORT")) {
                    println!("VIOLATION property=C05 replay={path}\n  class=abort-huge-allocation detail={l}");
                } else {
                    println!("VIOLATION property=C05 replay={path}\n  class=abort detail=process died: {:?}", out.status);
                }
            }
            1
        }
    }
}

/// Grandchild entry: `avrosim c05exec <file>`
pub fn exec_main(path: &str) -> i32 {
    let Ok(text) = std::fs::read_to_string(path) else {
        println!("HARNESS-ERROR cannot read {path}");
        return 2;
    };
    let Ok(doc) = serde_json::from_str::<J>(&text) else {
        println!("HARNESS-ERROR cannot parse {path}");
        return 2;
    };
    let limit = doc["case"]["limit"].as_u64().unwrap_or(0) as usize;
    if !install_limit(limit) {
        println!("HARNESS-ERROR cannot install limit {limit}");
        return 2;
    }
    std::thread::spawn(|| {
        std::thread::sleep(std::time::Duration::from_secs(240));
        eprintln!("HANG run=0");
        std::process::exit(3);
    });
    harness::replay(&C05, &doc, path)
}

#[allow(dead_code)]
fn _unused() {
    let _ = marker_from;
}
