//! C20 - multi-schema parsing is independent of input order and deterministic.
//!
//! The parser drains its pending-input map in hash-iteration order. With hook H2 the simulator
//! chooses which pending input is parsed next, so one case = (schema set, permutation of the
//! input list, sequence of pending picks), each a schedule a real run can produce.

use crate::gen::{Defs, NameStyle, RS, ValueGen, avro_eq, collect_defs, split_full, to_avro, to_json};
use crate::harness::{Ctx, Failure, Property, Tier, guarded};
use crate::rng::Rng;
use apache_avro::Schema;
use apache_avro::reader::datum::GenericDatumReader;
use apache_avro::schema::ResolvedSchema;
use apache_avro::writer::datum::GenericDatumWriter;
use serde::{Deserialize, Serialize};
use serde_json::{Value as J, json};
use std::collections::{BTreeMap, BTreeSet};

#[derive(Clone, Debug, Serialize, Deserialize)]
pub struct Case {
    /// top-level named schemas (records, enums, fixed)
    pub inputs: Vec<RS>,
    /// order in which the inputs are handed to the library
    pub perm: Vec<usize>,
    /// pending-pick sequence (indices into the sorted pending names, modulo their count)
    pub picks: Vec<usize>,
    /// 0 = parse_list, 1 = parse_str_with_list with an extra main schema referencing the inputs
    pub api: u8,
    pub salt: u64,
    /// defaults added to top-level record fields: (full name of the input, field name, default)
    #[serde(default)]
    pub defaults: Vec<(String, String, J)>,
    /// aliases given to input schemas: (full name of the input, alias as written in its "aliases")
    #[serde(default)]
    pub aliases: Vec<(String, String)>,
}

// ------------------------------------------------------------------------------------------------
// MultiParseModel: computed from the JSON alone

#[derive(Default, Debug)]
struct Model {
    /// full name -> (number of definitions, owning input indices)
    defs: BTreeMap<String, Vec<usize>>,
    /// (input index, referenced full name)
    refs: Vec<(usize, String)>,
    /// top-level name per input
    top: Vec<String>,
    /// some reference names the null namespace with a leading dot (".Name")
    leading_dot: bool,
    /// some definition carries an alias
    alias_used: bool,
}

const PRIMS: [&str; 8] = ["null", "boolean", "int", "long", "float", "double", "bytes", "string"];

fn fullname(obj: &serde_json::Map<String, J>, enclosing: &Option<String>) -> Option<(String, Option<String>)> {
    let name = obj.get("name")?.as_str()?;
    if let Some(i) = name.rfind('.') {
        return Some((name.to_string(), Some(name[..i].to_string())));
    }
    let ns = match obj.get("namespace").and_then(|n| n.as_str()) {
        Some("") => None,
        Some(n) => Some(n.to_string()),
        None => enclosing.clone(),
    };
    match &ns {
        Some(n) => Some((format!("{n}.{name}"), ns.clone())),
        None => Some((name.to_string(), None)),
    }
}

/// An alias is another name under which the definition can be referred to (an alias without a
/// namespace of its own lives in the namespace of the schema it belongs to).
fn alias_defs(obj: &serde_json::Map<String, J>, ns: &Option<String>, input: usize, m: &mut Model) {
    if let Some(J::Array(al)) = obj.get("aliases") {
        for a in al.iter().filter_map(|a| a.as_str()) {
            let full = if a.contains('.') {
                a.to_string()
            } else {
                match ns {
                    Some(n) if !n.is_empty() => format!("{n}.{a}"),
                    _ => a.to_string(),
                }
            };
            m.defs.entry(full).or_default().push(input);
            m.alias_used = true;
        }
    }
}

fn walk(j: &J, enclosing: &Option<String>, input: usize, m: &mut Model) {
    match j {
        J::String(t) => {
            if !PRIMS.contains(&t.as_str()) {
                let full = if let Some(rest) = t.strip_prefix('.') {
                    // a leading dot names the null namespace explicitly
                    m.leading_dot = true;
                    rest.to_string()
                } else if t.contains('.') {
                    t.clone()
                } else {
                    match enclosing {
                        Some(ns) if !ns.is_empty() => format!("{ns}.{t}"),
                        _ => t.clone(),
                    }
                };
                m.refs.push((input, full));
            }
        }
        J::Array(bs) => bs.iter().for_each(|b| walk(b, enclosing, input, m)),
        J::Object(obj) => match obj.get("type") {
            Some(J::String(t)) => match t.as_str() {
                "record" => {
                    if let Some((full, ns)) = fullname(obj, enclosing) {
                        alias_defs(obj, &ns, input, m);
                        m.defs.entry(full).or_default().push(input);
                        if let Some(J::Array(fields)) = obj.get("fields") {
                            for f in fields {
                                if let Some(ft) = f.get("type") {
                                    walk(ft, &ns, input, m);
                                }
                            }
                        }
                    }
                }
                "enum" | "fixed" => {
                    if let Some((full, ns)) = fullname(obj, enclosing) {
                        alias_defs(obj, &ns, input, m);
                        m.defs.entry(full).or_default().push(input);
                    }
                }
                "array" => {
                    if let Some(i) = obj.get("items") {
                        walk(i, enclosing, input, m);
                    }
                }
                "map" => {
                    if let Some(v) = obj.get("values") {
                        walk(v, enclosing, input, m);
                    }
                }
                other => walk(&J::String(other.to_string()), enclosing, input, m),
            },
            Some(other) => walk(other, enclosing, input, m),
            None => {}
        },
        _ => {}
    }
}

fn model_of(jsons: &[J]) -> Model {
    let mut m = Model::default();
    for (i, j) in jsons.iter().enumerate() {
        if let J::Object(obj) = j {
            m.top.push(fullname(obj, &None).map(|x| x.0).unwrap_or_default());
        } else {
            m.top.push(String::new());
        }
        walk(j, &None, i, &mut m);
    }
    m
}

impl Model {
    fn dups(&self) -> Vec<&String> {
        self.defs.iter().filter(|(_, v)| v.len() > 1).map(|(k, _)| k).collect()
    }
    fn dangling(&self) -> Vec<&String> {
        self.refs.iter().filter(|(_, r)| !self.defs.contains_key(r)).map(|(_, r)| r).collect()
    }
    /// two *inputs* with the same full name (rejected up front by the library)
    fn input_name_collision(&self) -> bool {
        let s: BTreeSet<&String> = self.top.iter().collect();
        s.len() != self.top.len()
    }
    /// input i depends on input j (i != j) if it references j or a type nested in j
    fn deps(&self) -> Vec<BTreeSet<usize>> {
        let mut d = vec![BTreeSet::new(); self.top.len()];
        for (i, r) in &self.refs {
            if let Some(owners) = self.defs.get(r) {
                for o in owners {
                    if o != i {
                        d[*i].insert(*o);
                    }
                }
            }
        }
        d
    }
    /// definition-before-use order of the inputs, if one exists
    fn topo(&self) -> Option<Vec<usize>> {
        let deps = self.deps();
        let n = deps.len();
        let mut done = vec![false; n];
        let mut out = vec![];
        while out.len() < n {
            let next = (0..n).find(|i| !done[*i] && deps[*i].iter().all(|j| done[*j]))?;
            done[next] = true;
            out.push(next);
        }
        Some(out)
    }
    /// a reference from one input to a type nested inside another input
    fn has_cross_nested_ref(&self) -> bool {
        self.refs.iter().any(|(i, r)| !self.top.contains(r) && self.defs.get(r).is_some_and(|o| o.iter().any(|x| x != i)))
    }
    fn shape(&self) -> String {
        let deps = self.deps();
        let edges: usize = deps.iter().map(|d| d.len()).sum();
        let cyc = self.topo().is_none();
        format!(
            "n{}|e{}|{}|{}|{}|{}",
            self.top.len(),
            edges.min(6),
            if cyc { "cyclic" } else { "acyclic" },
            if self.has_cross_nested_ref() { "xnested" } else { "-" },
            if self.dups().is_empty() { "-" } else if self.input_name_collision() { "dup-input" } else { "dup-nested" },
            if self.dangling().is_empty() { "-" } else { "dangling" }
        )
    }
}

// ------------------------------------------------------------------------------------------------
// Running the library under a schedule

struct Outcome {
    /// Ok: schemas in the order returned; Err: message
    res: Result<Vec<Schema>, String>,
    main: Option<Schema>,
    picks_used: usize,
}

fn run_lib(texts: &[String], order: &[usize], picks: &[usize], main: Option<&str>) -> Result<Outcome, String> {
    let picks_owned: Vec<usize> = picks.to_vec();
    let used = std::rc::Rc::new(std::cell::Cell::new(0usize));
    let used2 = used.clone();
    apache_avro::verif_hooks::set_pick_pending(Some(Box::new(move |names: &[String]| {
        let i = used2.get();
        used2.set(i + 1);
        picks_owned.get(i).copied().unwrap_or(0) % names.len().max(1)
    })));
    let ordered: Vec<&str> = order.iter().map(|i| texts[*i].as_str()).collect();
    // the inputs arrive as a slice iterator (exact size hint) or, for every other pick sequence,
    // through an adaptor whose lower size hint is 0, as `lines()` or `filter` would give
    let lazy = picks.first().map(|p| p % 2 == 1).unwrap_or(false);
    let r = guarded(|| match (main, lazy) {
        (None, false) => Schema::parse_list(ordered.iter()).map(|v| (None, v)).map_err(|e| e.to_string()),
        (None, true) => Schema::parse_list(ordered.iter().filter(|_| true)).map(|v| (None, v)).map_err(|e| e.to_string()),
        (Some(m), false) => Schema::parse_str_with_list(m, ordered.iter()).map(|(m, v)| (Some(m), v)).map_err(|e| e.to_string()),
        (Some(m), true) => Schema::parse_str_with_list(m, ordered.iter().filter(|_| true)).map(|(m, v)| (Some(m), v)).map_err(|e| e.to_string()),
    });
    apache_avro::verif_hooks::set_pick_pending(None);
    let r = r?;
    Ok(match r {
        Ok((main, v)) => Outcome { res: Ok(v), main, picks_used: used.get() },
        Err(e) => Outcome { res: Err(e), main: None, picks_used: used.get() },
    })
}

fn schema_name(s: &Schema) -> String {
    s.name().map(|n| n.fullname(None)).unwrap_or_default()
}

fn resolve_in_order<'a>(schemas: &'a [Schema], names_in_order: &[String]) -> Result<ResolvedSchema<'a>, String> {
    let mut refs: Vec<&Schema> = vec![];
    for n in names_in_order {
        if let Some(s) = schemas.iter().find(|s| &schema_name(s) == n) {
            refs.push(s);
        }
    }
    match guarded(|| ResolvedSchema::new_with_schemata(refs).map_err(|e| e.to_string())) {
        Err(p) => Err(format!("panic: {p}")),
        Ok(r) => r,
    }
}

fn judge_one(m: &Model, o: &Outcome, order: &[usize], which: &str) -> Option<Failure> {
    let expect_ok = m.dups().is_empty() && m.dangling().is_empty();
    let xn = if m.has_cross_nested_ref() { "cross-input-nested-ref" } else { "plain" };
    match &o.res {
        Err(e) => {
            if expect_ok {
                return Some(Failure::new(
                    "resolvable-set-rejected",
                    format!("C20 resolvable-set-rejected refs={xn}"),
                    format!("every reference resolves within the set and no name is defined twice, but parsing failed under the {which} ordering: {e}"),
                ));
            }
            None
        }
        Ok(v) => {
            if !m.dangling().is_empty() {
                return Some(Failure::new(
                    "dangling-reference-accepted",
                    "C20 dangling-reference-accepted".to_string(),
                    format!("reference(s) {:?} are not defined anywhere in the set, but parsing succeeded under the {which} ordering", m.dangling()),
                ));
            }
            if v.len() != order.len() {
                return Some(Failure::new(
                    "wrong-result-length",
                    "C20 wrong-result-length".to_string(),
                    format!("{} inputs, {} schemas returned", order.len(), v.len()),
                ));
            }
            for (k, s) in v.iter().enumerate() {
                let want = &m.top[order[k]];
                if &schema_name(s) != want {
                    return Some(Failure::new(
                        "not-in-input-order",
                        "C20 not-in-input-order".to_string(),
                        format!("result #{k} is {} but input #{k} defines {want} ({which} ordering)", schema_name(s)),
                    ));
                }
            }
            // duplicates must be caught by parse -> resolve
            if !m.dups().is_empty() {
                if let Some(t) = m.topo() {
                    let names: Vec<String> = t.iter().map(|i| m.top[*i].clone()).collect();
                    if resolve_in_order(v, &names).is_ok() {
                        return Some(Failure::new(
                            "duplicate-definition-accepted",
                            "C20 duplicate-definition-accepted".to_string(),
                            format!("{:?} defined more than once, yet parse_list and ResolvedSchema::new_with_schemata both succeeded ({which} ordering)", m.dups()),
                        ));
                    }
                }
            } else if m.leading_dot {
                // The resolver does not keep the leading dot of a reference to the null namespace
                // (it looks the name up in the referrer's namespace), in every ordering alike; how
                // such a reference resolves is not part of this property, so nothing is demanded.
            } else if let Some(t) = m.topo() {
                // a clean acyclic set must resolve in definition-before-use order
                let names: Vec<String> = t.iter().map(|i| m.top[*i].clone()).collect();
                if let Err(e) = resolve_in_order(v, &names) {
                    return Some(Failure::new(
                        "parsed-set-does-not-resolve",
                        format!("C20 parsed-set-does-not-resolve refs={xn}"),
                        format!("the parsed schemas do not resolve in definition-before-use order ({which} ordering): {e}"),
                    ));
                }
            }
            None
        }
    }
}

fn run_case(case: &Case, ctx: &mut Ctx) -> Option<Failure> {
    let mut jsons: Vec<J> = case.inputs.iter().map(to_json).collect();
    for (top, field, d) in &case.defaults {
        for j in jsons.iter_mut() {
            let is_top = j.as_object().and_then(|o| fullname(o, &None)).map(|x| &x.0 == top).unwrap_or(false);
            if !is_top {
                continue;
            }
            if let Some(fs) = j.get_mut("fields").and_then(|f| f.as_array_mut()) {
                for f in fs.iter_mut() {
                    if f.get("name").and_then(|n| n.as_str()) == Some(field.as_str()) {
                        f["default"] = d.clone();
                        ctx.agg.count("probe.field_default_on_input");
                    }
                }
            }
        }
    }
    for (top, alias) in &case.aliases {
        for j in jsons.iter_mut() {
            let is_top = j.as_object().and_then(|o| fullname(o, &None)).map(|x| &x.0 == top).unwrap_or(false);
            if is_top {
                j["aliases"] = json!([alias]);
                ctx.agg.count("probe.input_with_alias");
            }
        }
    }
    let texts: Vec<String> = jsons.iter().map(|j| serde_json::to_string(j).unwrap()).collect();
    let m = model_of(&jsons);
    if m.top.iter().any(|t| t.is_empty()) {
        return None;
    }
    // safety net: the harness AST and the JSON it emits must agree on which names are defined
    {
        let mut defs = Defs::new();
        for inp in &case.inputs {
            collect_defs(inp, &mut defs);
        }
        for (top, alias) in &case.aliases {
            if let Some(t) = defs.get(top).cloned() {
                let full = if alias.contains('.') { alias.clone() } else { match split_full(top).0 { Some(ns) => format!("{ns}.{alias}"), None => alias.clone() } };
                defs.insert(full, t);
            }
        }
        let from_ast: BTreeSet<&String> = defs.keys().collect();
        let from_json: BTreeSet<&String> = m.defs.keys().collect();
        if from_ast != from_json {
            ctx.agg.count("scenario.ast_json_name_mismatch");
            return None;
        }
    }
    let n = texts.len();
    let identity: Vec<usize> = (0..n).collect();
    let perm: Vec<usize> = if case.perm.len() == n { case.perm.clone() } else { identity.clone() };
    // optional main schema for parse_str_with_list: a record referencing every input by full name
    let main_text = if case.api == 1 {
        let fields: Vec<J> = m
            .top
            .iter()
            .enumerate()
            .map(|(i, t)| json!({"name": format!("m{i}"), "type": ["null", t]}))
            .collect();
        Some(serde_json::to_string(&json!({"type": "record", "name": "Main_0", "fields": fields})).unwrap())
    } else {
        None
    };
    ctx.ev(&m.shape());
    let shape = m.shape();
    let mut outcomes = vec![];
    for (which, order, picks) in [("baseline", &identity, &vec![][..]), ("scheduled", &perm, &case.picks[..])] {
        ctx.eval();
        let o = match run_lib(&texts, order, picks, main_text.as_deref()) {
            Err(p) => {
                return Some(Failure::new(
                    "panic",
                    "C20 panic".to_string(),
                    format!("parsing panicked under the {which} ordering: {p}"),
                ));
            }
            Ok(o) => o,
        };
        ctx.steps(o.picks_used as u64 + 1);
        ctx.agg.add("fault.pick_pending", o.picks_used as u64);
        ctx.ev_u(o.res.is_ok() as u64);
        let pclass = if *order == identity { "id" } else { "perm" };
        let kclass = match picks.iter().take(o.picks_used).filter(|p| **p != 0).count() {
            0 => "first",
            1 => "one-nonfirst",
            _ => "many-nonfirst",
        };
        ctx.agg.state(format!("{shape}|{pclass}|{kclass}|api{}|{}", case.api, if o.res.is_ok() { "ok" } else { "err" }));
        if let Some(f) = judge_one(&m, &o, order, which) {
            return Some(f);
        }
        outcomes.push((which, order.clone(), o));
    }
    if m.has_cross_nested_ref() {
        ctx.agg.count("probe.ref_to_type_nested_in_another_input");
    }
    // cross-ordering comparison
    let (_, _, a) = &outcomes[0];
    let (_, order_b, b) = &outcomes[1];
    match (&a.res, &b.res) {
        // a set with a duplicate definition is invalid: what the parser returns for it (before the
        // resolve step rejects it) is not compared across orderings
        (Ok(_), Ok(_)) if !m.dups().is_empty() => {}
        (Ok(va), Ok(vb)) => {
            ctx.agg.count("probe.both_orderings_ok");
            for (k, sb) in vb.iter().enumerate() {
                let i = order_b[k];
                let sa = &va[i];
                let ja = serde_json::to_string(sa).unwrap_or_default();
                let jb = serde_json::to_string(sb).unwrap_or_default();
                if ja != jb || sa != sb {
                    return Some(Failure::new(
                        "schema-differs-between-orderings",
                        "C20 schema-differs-between-orderings".to_string(),
                        format!("input {} parses to {ja} under the baseline ordering and to {jb} under the scheduled one", m.top[i]),
                    ));
                }
            }
            if let (Some(x), Some(y)) = (&a.main, &b.main) {
                if x != y {
                    return Some(Failure::new(
                        "schema-differs-between-orderings",
                        "C20 schema-differs-between-orderings main".to_string(),
                        "the main schema of parse_str_with_list differs between orderings".to_string(),
                    ));
                }
            }
            // data check: encode with the baseline's schemas, decode with the scheduled ones
            if m.dups().is_empty() {
                if let Some(t) = m.topo() {
                    let names: Vec<String> = t.iter().map(|i| m.top[*i].clone()).collect();
                    let mut defs = Defs::new();
                    for inp in &case.inputs {
                        collect_defs(inp, &mut defs);
                    }
                    for (top, alias) in &case.aliases {
                        if let Some(t) = defs.get(top).cloned() {
                            let full = if alias.contains('.') { alias.clone() } else { match split_full(top).0 { Some(ns) => format!("{ns}.{alias}"), None => alias.clone() } };
                            defs.insert(full, t);
                        }
                    }
                    let ra = resolve_in_order(va, &names);
                    let rb = resolve_in_order(vb, &names);
                    if let (Ok(ra), Ok(rb)) = (ra, rb) {
                        let mut vr = Rng::new(case.salt);
                        let vg = ValueGen::new(&defs);
                        for (k, sb) in vb.iter().enumerate() {
                            let i = order_b[k];
                            let sa = &va[i];
                            let rv = vg.gen(&mut vr, &case.inputs[i], 0);
                            let val = to_avro(&rv, &case.inputs[i], &defs);
                            let r = guarded(|| -> Result<bool, String> {
                                let w = GenericDatumWriter::builder(sa).resolved_schemata(clone_resolved(&ra)).build().map_err(|e| e.to_string())?;
                                let bytes = w.write_value_to_vec(val.clone()).map_err(|e| format!("encode: {e}"))?;
                                let rd = GenericDatumReader::builder(sb).resolved_writer_schemata(clone_resolved(&rb)).build().map_err(|e| e.to_string())?;
                                let back = rd.read_value(&mut &bytes[..]).map_err(|e| format!("decode: {e}"))?;
                                Ok(avro_eq(&back, &val))
                            });
                            ctx.eval();
                            ctx.agg.count("probe.cross_ordering_data_check");
                            match r {
                                Ok(Ok(true)) => {}
                                other => {
                                    return Some(Failure::new(
                                        "data-differs-between-orderings",
                                        "C20 data-differs-between-orderings".to_string(),
                                        format!("value of {} encoded with the baseline ordering's schema does not decode identically with the scheduled ordering's: {other:?}", m.top[i]),
                                    ));
                                }
                            }
                            // and the value resolves (which picks the branch of every union anew) to
                            // the same thing against the schemas of either ordering
                            let resolved = |s: &Schema, all: &[Schema]| {
                                let ordered: Vec<&Schema> = names.iter().filter_map(|n| all.iter().find(|x| &schema_name(x) == n)).collect();
                                guarded(|| val.clone().resolve_schemata(s, ordered).map_err(|e| e.to_string()))
                            };
                            let (xa, xb) = (resolved(sa, va), resolved(sb, vb));
                            ctx.eval();
                            ctx.agg.count("probe.cross_ordering_resolve_check");
                            let mut same = match (&xa, &xb) {
                                (Ok(Ok(x)), Ok(Ok(y))) => x == y,
                                (Ok(Err(_)), Ok(Err(_))) => true,
                                _ => false,
                            };
                            // (a dependence on something no seam owns - the per-map hash seed - shows
                            // only between independent parses: a few more of them, so that a replay
                            // of such a finding does not hang on one coin)
                            let mut xb = xb;
                            if same && texts.iter().any(|t| t.contains("\"twins\"")) {
                                for _ in 0..5 {
                                    if let Ok(Outcome { res: Ok(vc), .. }) = run_lib(&texts, &identity, &[], main_text.as_deref()) {
                                        let xc = resolved(&vc[i], &vc);
                                        if !matches!((&xa, &xc), (Ok(Ok(x)), Ok(Ok(y))) if x == y) && !matches!((&xa, &xc), (Ok(Err(_)), Ok(Err(_)))) {
                                            same = false;
                                            xb = xc;
                                            break;
                                        }
                                    }
                                }
                            }
                            if !same {
                                return Some(Failure::new(
                                    "data-differs-between-orderings",
                                    "C20 data-differs-between-orderings via=resolve".to_string(),
                                    format!("value of {} resolves to {xa:?} against the baseline ordering's schemas and to {xb:?} against the schemas of another parse of the same set", m.top[i]),
                                ));
                            }
                        }
                    }
                }
            }
        }
        (Ok(_), Err(_)) | (Err(_), Ok(_)) if !m.dups().is_empty() => {}
        (Ok(_), Err(e)) | (Err(e), Ok(_)) => {
            let xn = if m.has_cross_nested_ref() { "cross-input-nested-ref" } else { "plain" };
            return Some(Failure::new(
                "order-dependent-outcome",
                format!("C20 order-dependent-outcome refs={xn}"),
                format!(
                    "the same set parses under one ordering and fails under another (baseline ok={}, scheduled ok={}): {e}",
                    a.res.is_ok(),
                    b.res.is_ok()
                ),
            ));
        }
        (Err(_), Err(_)) => {}
    }
    None
}

fn clone_resolved<'a>(r: &ResolvedSchema<'a>) -> ResolvedSchema<'a> {
    ResolvedSchema::new_with_schemata(r.get_schemata().to_vec()).expect("re-resolve")
}

// ------------------------------------------------------------------------------------------------
// Generator of schema sets over a name graph

struct SetGen<'r> {
    r: &'r mut Rng,
    /// (full name, owning input) of every definition so far, in definition order
    known: Vec<(String, usize)>,
    counter: u32,
}

const NSS: [Option<&str>; 4] = [None, Some("p"), Some("p.q"), Some("zz")];

impl SetGen<'_> {
    fn ref_to(&mut self, full: &str, enclosing: Option<&str>) -> Option<RS> {
        let (ns, _) = split_full(full);
        match (ns, enclosing) {
            // a namespace-less name can be referenced from inside a namespace only with a leading dot
            (None, Some(e)) if !e.is_empty() => {
                if self.r.chance(1, 2) {
                    Some(RS::Ref { full: format!(".{full}"), short: false })
                } else {
                    None
                }
            }
            (None, _) => Some(RS::Ref { full: full.to_string(), short: false }),
            // (a type called like a schema kind is only ever referenced by its full name)
            (Some(n), Some(e)) if n == e => Some(RS::Ref { full: full.to_string(), short: self.r.chance(1, 2) && !["record", "enum", "fixed", "array", "map"].contains(&split_full(full).1) }),
            (Some(_), _) => Some(RS::Ref { full: full.to_string(), short: false }),
        }
    }

    fn nested_def(&mut self, enclosing: Option<&str>, owner: usize) -> RS {
        self.counter += 1;
        let short = format!("N{}_{}", owner, self.counter);
        let (full, style) = if self.r.chance(1, 2) {
            match enclosing {
                Some(e) if !e.is_empty() => (format!("{e}.{short}"), NameStyle::Inherit),
                _ => (short.clone(), NameStyle::Inherit),
            }
        } else {
            match *self.r.pick(&NSS) {
                Some(ns) => (format!("{ns}.{short}"), if self.r.chance(1, 2) { NameStyle::Dotted } else { NameStyle::NsAttr }),
                None => match enclosing {
                    Some(e) if !e.is_empty() => (format!("{e}.{short}"), NameStyle::Inherit),
                    _ => (short.clone(), NameStyle::Inherit),
                },
            }
        };
        self.known.push((full.clone(), owner));
        match self.r.below(3) {
            0 => RS::Enum { full, style, symbols: vec!["A".into(), "B".into()] },
            1 => RS::Fixed { full, style, size: 3 },
            _ => RS::Record { full, style, fields: vec![("v".into(), RS::Long), ("w".into(), RS::String)] },
        }
    }
}

fn gen_set(r: &mut Rng) -> Vec<RS> {
    // now and then a long chain of inputs: on-demand parsing then nests as deep as the chain is long
    let long = r.chance(1, 40);
    let n = if long { r.range(17, 28) as usize } else { r.range(2, 5) as usize };
    let mut g = SetGen { r, known: vec![], counter: 0 };
    // names of the inputs first (so that any input can reference any other)
    let mut tops: Vec<(String, NameStyle)> = vec![];
    for i in 0..n {
        // now and then an input is called like a schema kind
        let short = if g.r.chance(1, 16) { ["record", "enum", "fixed", "array", "map"][i % 5].to_string() } else { format!("T{i}") };
        match *g.r.pick(&NSS) {
            Some(ns) => tops.push((format!("{ns}.{short}"), if g.r.chance(1, 2) { NameStyle::Dotted } else { NameStyle::NsAttr })),
            // the bare word `record` is not a reference: such an input always gets a namespace
            None if !short.starts_with('T') => tops.push((format!("kw.{short}"), NameStyle::Dotted)),
            None => tops.push((short, NameStyle::Inherit)),
        }
    }
    // phase 1: bodies with nested definitions and references to inputs; references to nested
    // definitions of *other* inputs are added in phase 2 when all nested names exist
    let mut inputs: Vec<RS> = vec![];
    let shape = if long { 0 } else { g.r.below(5) }; // 0 chain, 1 star, 2 cycle, 3 random, 4 sparse
    for i in 0..n {
        let (full, style) = tops[i].clone();
        let ns = split_full(&full).0.map(|s| s.to_string());
        if g.r.chance(1, 5) {
            // non-record input
            inputs.push(match g.r.below(5) {
                0 | 1 => RS::Enum { full, style, symbols: vec!["X".into(), "Y".into(), "Z".into()] },
                2 | 3 => RS::Fixed { full, style, size: 4 },
                // a named type carrying a logical type, referenced from other inputs
                _ => match g.r.below(3) {
                    0 => RS::Logical(crate::gen::Logical::DecimalFixed { precision: 5, scale: 2 }, Box::new(RS::Fixed { full, style, size: 4 })),
                    1 => RS::Logical(crate::gen::Logical::Duration, Box::new(RS::Fixed { full, style, size: 12 })),
                    _ => RS::Logical(crate::gen::Logical::UuidFixed, Box::new(RS::Fixed { full, style, size: 16 })),
                },
            });
            continue;
        }
        let mut fields: Vec<(String, RS)> = vec![];
        let targets: Vec<usize> = match shape {
            0 => {
                if i + 1 < n {
                    vec![i + 1]
                } else {
                    vec![]
                }
            }
            1 => {
                if i == 0 {
                    (1..n).collect()
                } else {
                    vec![]
                }
            }
            2 => vec![(i + 1) % n],
            3 => (0..n).filter(|_| g.r.chance(1, 3)).collect(),
            _ => {
                if g.r.chance(1, 3) {
                    vec![g.r.usize_below(n)]
                } else {
                    vec![]
                }
            }
        };
        for (k, j) in targets.iter().enumerate() {
            if let Some(rf) = g.ref_to(&tops[*j].0, ns.as_deref()) {
                // back edges and self references are guarded so that finite values exist
                let t = if *j <= i || g.r.chance(1, 2) {
                    if g.r.chance(1, 2) {
                        RS::Union(vec![RS::Null, rf])
                    } else {
                        RS::Array(Box::new(rf))
                    }
                } else {
                    rf
                };
                fields.push((format!("r{k}"), t));
            }
        }
        let nn = if long { g.r.below(8) as usize / 7 } else { g.r.below(3) as usize };
        for k in 0..nn {
            let d = g.nested_def(ns.as_deref(), i);
            let t = match g.r.below(3) {
                0 => RS::Array(Box::new(d)),
                1 => RS::Union(vec![RS::Null, d]),
                _ => d,
            };
            fields.push((format!("d{k}"), t));
        }
        if g.r.chance(1, 2) || fields.is_empty() {
            fields.push(("p".into(), if g.r.chance(1, 2) { RS::Long } else { RS::String }));
        }
        inputs.push(RS::Record { full, style, fields });
    }
    // phase 2: references to types nested in other inputs / earlier in the same input
    let nested: Vec<(String, usize)> = g.known.clone();
    for i in 0..n {
        if let RS::Record { full, fields, .. } = &mut inputs[i] {
            let ns = split_full(full).0.map(|s| s.to_string());
            let k = g.r.below(3);
            for q in 0..k {
                if nested.is_empty() {
                    break;
                }
                let (target, owner) = g.r.pick(&nested).clone();
                if owner == i {
                    // same input: legal only after the definition (appended at the end: fine)
                }
                if let Some(rf) = g.ref_to(&target, ns.as_deref()) {
                    let t = if g.r.chance(1, 2) { RS::Union(vec![RS::Null, rf]) } else { rf };
                    // a direct (unguarded) reference to a nested *record* of an input that
                    // references us back could make values infinite; nested records have only
                    // primitive fields, so this cannot happen
                    fields.push((format!("x{q}"), t));
                }
            }
        }
    }
    // fault injection
    match g.r.below(12) {
        0 => {
            // dangling reference
            let i = g.r.usize_below(n);
            if let RS::Record { fields, .. } = &mut inputs[i] {
                fields.push(("dangling".into(), RS::Union(vec![RS::Null, RS::Ref { full: "nowhere.Missing_1".into(), short: false }])));
            }
        }
        1 => {
            // two inputs with the same full name
            let i = g.r.usize_below(n);
            let dup = inputs[i].clone();
            inputs.push(dup);
        }
        2 => {
            // a nested definition with the full name of an input
            let i = g.r.usize_below(n);
            let j = (i + 1) % n;
            let victim = tops[j].0.clone();
            // a namespace-less name cannot be defined inside a namespaced record without an
            // explicit empty namespace attribute, which the emitter does not produce
            let expressible = split_full(&victim).0.is_some() || split_full(&tops[i].0).0.is_none();
            if let (true, RS::Record { fields, .. }) = (expressible, &mut inputs[i]) {
                fields.push(("clash".into(), RS::Fixed { full: victim, style: NameStyle::Dotted, size: 2 }));
            }
        }
        3 => {
            // two nested definitions with the same full name, in different inputs
            if n >= 2 {
                for i in 0..2 {
                    if let RS::Record { fields, .. } = &mut inputs[i] {
                        fields.push(("same".into(), RS::Enum { full: "p.Clash_9".into(), style: NameStyle::Dotted, symbols: vec!["Q".into()] }));
                    }
                }
            }
        }
        4 => {
            // a bare name inside a namespace means <that namespace>.<name>: written without the
            // leading dot, a reference to a null-namespace input dangles - under every ordering
            let nulls: Vec<usize> = (0..n).filter(|j| split_full(&tops[*j].0).0.is_none()).collect();
            let nsd: Vec<usize> = (0..n).filter(|i| split_full(&tops[*i].0).0.is_some() && matches!(inputs[*i], RS::Record { .. })).collect();
            if !nulls.is_empty() && !nsd.is_empty() {
                let target = tops[*g.r.pick(&nulls)].0.clone();
                let i = *g.r.pick(&nsd);
                if let RS::Record { fields, .. } = &mut inputs[i] {
                    fields.push(("bare".into(), RS::Union(vec![RS::Null, RS::Ref { full: target, short: false }])));
                }
            }
        }
        5 | 6 => {
            // two or three inputs of the same shape under different names, and a union of references
            // to them: a value that fits every branch must land in the same one whatever the ordering
            let k = 2 + g.r.below(2) as usize;
            let tag = g.r.below(1000);
            let mut refs = vec![RS::Null];
            for t in 0..k {
                let full = format!("tw{t}.Ev_{tag}");
                refs.push(RS::Ref { full: full.clone(), short: false });
                inputs.push(RS::Record { full, style: if t % 2 == 0 { NameStyle::Dotted } else { NameStyle::NsAttr }, fields: vec![("id".into(), RS::Long), ("what".into(), RS::String)] });
            }
            let holders: Vec<usize> = (0..n).filter(|i| matches!(inputs[*i], RS::Record { .. })).collect();
            if !holders.is_empty() {
                let i = *g.r.pick(&holders);
                if let RS::Record { fields, .. } = &mut inputs[i] {
                    fields.push(("twins".into(), RS::Union(refs)));
                }
            }
        }
        _ => {}
    }
    inputs
}

/// One input in a sixth of the sets gets an alias, and another input refers to it by that alias.
fn gen_aliases(r: &mut Rng, inputs: &mut [RS]) -> Vec<(String, String)> {
    if inputs.len() > 6 || !r.chance(1, 6) {
        return vec![];
    }
    let n = inputs.len();
    let j = r.usize_below(n);
    let (target_full, target_ns) = match &inputs[j] {
        RS::Record { full, .. } | RS::Enum { full, .. } | RS::Fixed { full, .. } => (full.clone(), split_full(full).0.map(|s| s.to_string())),
        _ => return vec![],
    };
    let alias_short = format!("Al{j}");
    let alias_full = match &target_ns {
        Some(ns) => format!("{ns}.{alias_short}"),
        None => alias_short.clone(),
    };
    // the alias as written: short (inherits the schema's namespace) or fully qualified
    let written = if target_ns.is_some() && r.chance(1, 2) { alias_full.clone() } else { alias_short };
    let i = (j + 1 + r.usize_below(n - 1)) % n;
    if let RS::Record { full, fields, .. } = &mut inputs[i] {
        let referrer_ns = split_full(full).0;
        // a name without a namespace cannot be referred to from inside a namespace (except with a leading dot)
        if target_ns.is_some() || referrer_ns.is_none() {
            fields.push(("al".into(), RS::Union(vec![RS::Null, RS::Ref { full: alias_full, short: false }])));
        }
    }
    vec![(target_full, written)]
}

/// Valid defaults for some top-level record fields (validated by the parser against the field's
/// type at the moment the field is parsed - so a default on a reference-typed field needs the
/// referenced definition to be known by then).
fn gen_defaults(r: &mut Rng, inputs: &[RS]) -> Vec<(String, String, J)> {
    if r.chance(1, 2) {
        return vec![];
    }
    let mut defs = Defs::new();
    for i in inputs {
        collect_defs(i, &mut defs);
    }
    fn simple_default(t: &RS, defs: &Defs, depth: u32) -> Option<J> {
        match t {
            RS::Long | RS::Int => Some(json!(7)),
            RS::String => Some(json!("d")),
            RS::Array(_) => Some(json!([])),
            RS::Union(bs) if matches!(bs.first(), Some(RS::Null)) => Some(J::Null),
            RS::Enum { symbols, .. } => symbols.first().map(|s| json!(s)),
            RS::Fixed { size, .. } => Some(json!("a".repeat(*size))),
            RS::Record { fields, .. } if depth < 2 => {
                let mut m = serde_json::Map::new();
                for (n, ft) in fields {
                    m.insert(n.clone(), simple_default(ft, defs, depth + 1)?);
                }
                Some(J::Object(m))
            }
            RS::Ref { full, .. } if depth < 2 => simple_default(defs.get(full.trim_start_matches('.'))?, defs, depth + 1),
            _ => None,
        }
    }
    let mut out = vec![];
    for inp in inputs {
        if let RS::Record { full, fields, .. } = inp {
            for (name, t) in fields {
                if r.chance(1, 2) {
                    if let Some(d) = simple_default(t, &defs, 0) {
                        out.push((full.clone(), name.clone(), d));
                    }
                }
            }
        }
    }
    out
}

pub struct C20;

impl Property for C20 {
    type Case = Case;
    fn id(&self) -> &'static str {
        "C20"
    }
    fn level(&self) -> &'static str {
        "exploration"
    }
    fn rule(&self) -> String {
        "Seeded (schema set x permutation of the input list x pending-pick sequence). Sets of 2-5 named schemas over a name graph \
         (chain, star, cycle, random, sparse; cross-namespace references by full name and same-namespace short names; definitions \
         nested in one input and referenced from a sibling; self reference; injected faults: dangling reference, two inputs with \
         the same full name, nested definition clashing with an input, two nested definitions clashing; references to the null \
         namespace with a leading dot; inputs that are a fixed with a logical type; inputs called like a kind of schema; valid \
         defaults on top-level record fields, also of reference type; aliases on inputs and references by alias; now and then a \
         chain of 17-28 inputs; half of the parses receive the inputs through an iterator with lower size hint 0). The simulator - not \
         RandomState - picks the next pending input through hook H2. Each case runs the baseline schedule (identity order, always the \
         first pending name) and the drawn schedule, judges both against the MultiParseModel computed from the JSON alone, compares \
         the returned schemas per input across the two schedules, and encodes a generated value with one schedule's schemas and \
         decodes it with the other's. One evaluation = one parse or one cross-ordering data check. distinct_nontrivial counts \
         distinct (graph shape class, permutation class, pick class, API, outcome) tuples."
            .into()
    }
    fn assumptions(&self) -> Vec<String> {
        vec![
            "every pick the simulator makes is one some RandomState seed makes (any key can be first)".into(),
            "'parsing together' includes ResolvedSchema::new_with_schemata for duplicate detection; that step is only consulted when a definition-before-use order of the inputs exists (documented limitation of new_with_schemata)".into(),
            "references are generated only in forms whose meaning the specification fixes; no forward references within one input".into(),
            "error messages are never compared".into(),
        ]
    }
    fn components(&self) -> J {
        json!({"real": ["Schema::parse_list", "Schema::parse_str_with_list", "schema/parser.rs", "ResolvedSchema::new_with_schemata", "datum writer/reader for the data check"],
               "simulated": ["pending-input pick order (hook H2 replaces hash-map iteration order)", "input permutation"],
               "reference": ["MultiParseModel: definitions with multiplicity, references, dangling/duplicate sets, dependency order - from the JSON alone"]})
    }
    fn runs(&self, tier: Tier) -> u64 {
        match tier {
            Tier::Quick => 300_000,
            Tier::Thorough => 30_000_000,
        }
    }
    fn required_probes(&self) -> Vec<&'static str> {
        vec!["probe.ref_to_type_nested_in_another_input", "probe.both_orderings_ok", "probe.cross_ordering_data_check", "probe.field_default_on_input", "probe.input_with_alias"]
    }

    fn generate(&self, rng: &mut Rng, _run: u64, _tier: Tier) -> Option<Case> {
        let mut wr = rng.fork("workload");
        let inputs = gen_set(&mut wr);
        let mut sr = rng.fork("schedule");
        let mut perm: Vec<usize> = (0..inputs.len()).collect();
        sr.shuffle(&mut perm);
        let picks: Vec<usize> = (0..inputs.len() + 2).map(|_| sr.usize_below(inputs.len())).collect();
        let mut inputs = inputs;
        let aliases = gen_aliases(&mut rng.fork("aliases"), &mut inputs);
        let defaults = gen_defaults(&mut rng.fork("defaults"), &inputs);
        Some(Case { inputs, perm, picks, api: if sr.chance(1, 4) { 1 } else { 0 }, salt: wr.next_u64(), defaults, aliases })
    }

    fn execute(&self, case: &Case, ctx: &mut Ctx) -> Option<Failure> {
        run_case(case, ctx)
    }

    fn shrink(&self, case: &Case, _failure: &Failure) -> Vec<Case> {
        let mut out = vec![];
        let n = case.inputs.len();
        // drop an input
        if n > 1 {
            for i in (0..n).rev() {
                let mut c = case.clone();
                c.inputs.remove(i);
                c.perm = c.perm.iter().filter(|p| **p != i).map(|p| if *p > i { *p - 1 } else { *p }).collect();
                out.push(c);
            }
        }
        // drop a field
        for i in 0..n {
            if let RS::Record { fields, .. } = &case.inputs[i] {
                for f in (0..fields.len()).rev() {
                    let mut c = case.clone();
                    if let RS::Record { fields, .. } = &mut c.inputs[i] {
                        fields.remove(f);
                    }
                    out.push(c);
                }
                // unwrap union / array around a field type
                for f in 0..fields.len() {
                    // never unwrap the guard around a reference (finite values must keep existing)
                    let inner = match &fields[f].1 {
                        RS::Union(bs) if bs.len() == 2 && !matches!(bs[1], RS::Ref { .. }) => Some(bs[1].clone()),
                        RS::Array(t) if !matches!(**t, RS::Ref { .. }) => Some((**t).clone()),
                        _ => None,
                    };
                    if let Some(inner) = inner {
                        let mut c = case.clone();
                        if let RS::Record { fields, .. } = &mut c.inputs[i] {
                            fields[f].1 = inner;
                        }
                        out.push(c);
                    }
                }
            }
        }
        // simpler schedule
        let identity: Vec<usize> = (0..n).collect();
        if case.perm != identity {
            let mut c = case.clone();
            c.perm = identity;
            out.push(c);
        }
        if case.picks.iter().any(|p| *p != 0) {
            let mut c = case.clone();
            c.picks = vec![0; case.picks.len()];
            out.push(c);
            for i in 0..case.picks.len() {
                if case.picks[i] != 0 {
                    let mut c = case.clone();
                    c.picks[i] = 0;
                    out.push(c);
                }
            }
        }
        if case.api != 0 {
            let mut c = case.clone();
            c.api = 0;
            out.push(c);
        }
        out
    }

    fn sample(&self, case: &Case) -> J {
        json!({"inputs": case.inputs.iter().map(to_json).collect::<Vec<_>>(), "perm": case.perm, "picks": case.picks, "api": if case.api == 1 { "parse_str_with_list" } else { "parse_list" }})
    }
}
