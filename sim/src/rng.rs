//! The only source of randomness in the simulator: SplitMix64-seeded xoshiro256**.
//! No OS entropy, no clock. Streams are forked by *purpose* so that adding a draw in one place
//! never shifts another.

#[derive(Clone, Debug)]
pub struct Rng {
    s: [u64; 4],
}

fn splitmix(x: &mut u64) -> u64 {
    *x = x.wrapping_add(0x9E37_79B9_7F4A_7C15);
    let mut z = *x;
    z = (z ^ (z >> 30)).wrapping_mul(0xBF58_476D_1CE4_E5B9);
    z = (z ^ (z >> 27)).wrapping_mul(0x94D0_49BB_1331_11EB);
    z ^ (z >> 31)
}

/// FNV-1a, used to turn purpose labels into stream ids (stable across builds, unlike `Hash`).
pub fn fnv(s: &str) -> u64 {
    let mut h: u64 = 0xcbf2_9ce4_8422_2325;
    for b in s.bytes() {
        h ^= b as u64;
        h = h.wrapping_mul(0x0000_0100_0000_01B3);
    }
    h
}

pub fn fnv_bytes(s: &[u8]) -> u64 {
    let mut h: u64 = 0xcbf2_9ce4_8422_2325;
    for b in s {
        h ^= *b as u64;
        h = h.wrapping_mul(0x0000_0100_0000_01B3);
    }
    h
}

impl Rng {
    pub fn new(seed: u64) -> Self {
        let mut x = seed;
        let s = [
            splitmix(&mut x),
            splitmix(&mut x),
            splitmix(&mut x),
            splitmix(&mut x),
        ];
        Rng { s }
    }

    /// Independent stream for (seed, property, run index).
    pub fn for_run(seed: u64, property: &str, run: u64) -> Self {
        let mut x = seed ^ fnv(property).rotate_left(17);
        let a = splitmix(&mut x);
        let mut y = a ^ run.wrapping_mul(0xD6E8_FEB8_6659_FD93);
        Rng::new(splitmix(&mut y))
    }

    /// Independent sub-stream for a purpose; does not advance `self`.
    pub fn fork(&self, purpose: &str) -> Self {
        let mut x = self.s[0] ^ self.s[2].rotate_left(23) ^ fnv(purpose);
        Rng::new(splitmix(&mut x))
    }

    pub fn fork_n(&self, purpose: &str, n: u64) -> Self {
        let mut x = self.s[0] ^ self.s[2].rotate_left(23) ^ fnv(purpose) ^ n.wrapping_mul(0x9E37_79B9_7F4A_7C15);
        Rng::new(splitmix(&mut x))
    }

    pub fn next_u64(&mut self) -> u64 {
        let result = self.s[1].wrapping_mul(5).rotate_left(7).wrapping_mul(9);
        let t = self.s[1] << 17;
        self.s[2] ^= self.s[0];
        self.s[3] ^= self.s[1];
        self.s[1] ^= self.s[2];
        self.s[0] ^= self.s[3];
        self.s[2] ^= t;
        self.s[3] = self.s[3].rotate_left(45);
        result
    }

    /// Uniform in [0, n). n must be > 0.
    pub fn below(&mut self, n: u64) -> u64 {
        debug_assert!(n > 0);
        // multiply-shift; bias is irrelevant here
        ((self.next_u64() as u128 * n as u128) >> 64) as u64
    }

    pub fn usize_below(&mut self, n: usize) -> usize {
        self.below(n as u64) as usize
    }

    /// Uniform in [lo, hi] inclusive.
    pub fn range(&mut self, lo: u64, hi: u64) -> u64 {
        lo + self.below(hi - lo + 1)
    }

    pub fn chance(&mut self, num: u64, den: u64) -> bool {
        self.below(den) < num
    }

    pub fn pick<'a, T>(&mut self, xs: &'a [T]) -> &'a T {
        &xs[self.usize_below(xs.len())]
    }

    pub fn bytes(&mut self, n: usize) -> Vec<u8> {
        let mut v = Vec::with_capacity(n);
        while v.len() < n {
            let x = self.next_u64().to_le_bytes();
            let take = (n - v.len()).min(8);
            v.extend_from_slice(&x[..take]);
        }
        v
    }

    pub fn shuffle<T>(&mut self, xs: &mut [T]) {
        for i in (1..xs.len()).rev() {
            let j = self.usize_below(i + 1);
            xs.swap(i, j);
        }
    }
}
