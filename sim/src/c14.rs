//! C14 - a truncated or marker-corrupted file yields only a true prefix, then an error.
//!
//! One case = one container file (framing written by the reference writer, or by the library
//! writer and located with the reference parser). Executing a case enumerates EVERY byte offset as
//! a cut point and every byte of every marker occurrence and of the magic as a damage point.

use crate::common::{CodecSpec, marker_from, parse_rs};
use crate::corpus::{self, Corp};
use crate::gen::{RS, RV, ValueGen, avro_eq, gen_schema, to_avro, to_json};
use crate::harness::{Ctx, Failure, Property, Tier, guarded};
use crate::refimpl::{self, ParsedFile};
use crate::rng::Rng;
use crate::seams::{Chunk, ReadFault, ReadFaultKind, SimSource, SourcePlan};
use crate::with_corpus;
use apache_avro::types::Value;
use apache_avro::writer::datum::GenericDatumWriter;
use apache_avro::{AvroSchema, Reader, Writer};
use serde::{Deserialize, Serialize};
use serde_json::{Value as J, json};

#[derive(Clone, Debug, Serialize, Deserialize)]
pub enum Payload {
    /// generic values, read back with the `Reader` iterator
    Generic { schema: RS, blocks: Vec<Vec<RV>> },
    /// serde corpus values, read back with `into_deser_iter::<T>()` as well
    Corpus { type_id: String, blocks: Vec<Vec<J>> },
}

#[derive(Clone, Debug, Serialize, Deserialize, PartialEq)]
pub enum Producer {
    /// framing by the reference writer (fixed metadata order)
    Reference,
    /// the library `Writer`, one flush per block
    Library,
}

#[derive(Clone, Debug, Serialize, Deserialize, PartialEq)]
pub enum Damage {
    Cut { at: u64, chunk: Chunk, eintr_every: u64 },
    /// XOR one byte of marker occurrence `which` (0 = header marker, i = trailer of block i-1)
    Marker { which: usize, byte: usize, xor: u8 },
    Magic { byte: usize, xor: u8 },
    /// the file is intact, but the source reports one error of `kind` (0 Other, 1 WouldBlock,
    /// 2 TimedOut, 3 ConnectionReset) when the read position reaches `at`, and would then go on
    ReadErr { at: u64, kind: u8, chunk: Chunk },
}

#[derive(Clone, Debug, Serialize, Deserialize)]
pub struct Case {
    pub payload: Payload,
    pub codec: CodecSpec,
    pub user_meta: Vec<(String, Vec<u8>)>,
    pub marker: [u8; 16],
    pub producer: Producer,
    pub salt: u64,
    pub only: Option<Damage>,
}

struct Built {
    bytes: Vec<u8>,
    layout: ParsedFile,
    /// expected values per block
    expected: Vec<Vec<Value>>,
}

fn encode_blocks(case: &Case) -> Option<(String, Vec<(usize, Vec<u8>)>, Vec<Vec<Value>>)> {
    match &case.payload {
        Payload::Generic { schema, blocks } => {
            let p = parse_rs(schema)?;
            let json = serde_json::to_string(&to_json(schema)).unwrap();
            let mut raw = vec![];
            let mut exp = vec![];
            for b in blocks {
                let mut buf = vec![];
                let mut vs = vec![];
                for v in b {
                    refimpl::encode(v, schema, &p.defs, &mut buf);
                    vs.push(to_avro(v, schema, &p.defs));
                }
                raw.push((b.len(), buf));
                exp.push(vs);
            }
            Some((json, raw, exp))
        }
        Payload::Corpus { type_id, blocks } => {
            with_corpus!(type_id.as_str(), T => {
                let schema = T::get_schema();
                let json = serde_json::to_string(&schema).ok()?;
                let w = GenericDatumWriter::builder(&schema).build().ok()?;
                let mut raw = vec![];
                let mut exp = vec![];
                for b in blocks {
                    let mut buf = vec![];
                    let mut vs = vec![];
                    for v in b {
                        let t: T = serde_json::from_value(v.clone()).ok()?;
                        w.write_ser(&mut buf, &t).ok()?;
                        vs.push(t.to_value());
                    }
                    raw.push((b.len(), buf));
                    exp.push(vs);
                }
                Some((json, raw, exp))
            })
        }
    }
}

fn build(case: &Case) -> Option<Built> {
    let (json, raw, expected) = encode_blocks(case)?;
    let bytes = match case.producer {
        Producer::Reference => {
            let mut meta = vec![("avro.schema".to_string(), json.into_bytes())];
            if case.codec != CodecSpec::Null {
                meta.push(("avro.codec".to_string(), case.codec.kind().as_bytes().to_vec()));
            }
            meta.extend(case.user_meta.iter().cloned());
            let mut out = refimpl::write_header(&meta, &case.marker);
            for (n, payload) in &raw {
                refimpl::write_block(&mut out, *n, payload, &case.codec.to_ref(), &case.marker);
            }
            out
        }
        Producer::Library => {
            let schema = apache_avro::Schema::parse_str(&json).ok()?;
            let mut w = Writer::builder()
                .schema(&schema)
                .writer(Vec::new())
                .codec(case.codec.to_lib())
                .marker(case.marker)
                .block_size(1 << 16)
                .build()
                .ok()?;
            for (k, v) in &case.user_meta {
                w.add_user_metadata(k.clone(), v).ok()?;
            }
            for blk in &expected {
                for v in blk {
                    w.append_value_ref(v).ok()?;
                }
                w.flush().ok()?;
            }
            w.into_inner().ok()?
        }
    };
    let layout = refimpl::parse_file(&bytes)?;
    // the reference parser must see exactly the intended structure (otherwise this is C03's
    // alarm for a library-written file, or a harness bug for a reference-written one)
    if layout.trailing != 0 || layout.blocks.len() != raw.len() || layout.blocks.iter().any(|b| !b.marker_ok) {
        return None;
    }
    for (b, (n, _)) in layout.blocks.iter().zip(&raw) {
        if b.count != *n as i64 {
            return None;
        }
    }
    Some(Built { bytes, layout, expected })
}

#[derive(Debug)]
struct Observed {
    open_ok: bool,
    open_err: String,
    oks: Vec<Value>,
    errs: usize,
    /// items (Ok or Err) yielded after the first Err
    after_err: usize,
    /// the iterator ended (returned None) within the call budget
    ended: bool,
    source_calls: u64,
}

thread_local! {
    /// > 0: the consumer advances with `nth(STRIDE)` (what `skip`, `step_by` and `nth` boil down
    /// to) instead of `next()`: STRIDE items are passed over before each one that is looked at
    static STRIDE: std::cell::Cell<usize> = const { std::cell::Cell::new(0) };
}

fn with_stride<T>(k: usize, f: impl FnOnce() -> T) -> T {
    STRIDE.with(|c| c.set(k));
    let r = f();
    STRIDE.with(|c| c.set(0));
    r
}

fn observe_generic(bytes: &[u8], plan: SourcePlan, max_items: usize) -> Result<Observed, String> {
    guarded(|| {
        let mut src = SimSource::new(bytes, plan);
        let mut o = Observed { open_ok: false, open_err: String::new(), oks: vec![], errs: 0, after_err: 0, ended: false, source_calls: 0 };
        {
            let r = Reader::new(&mut src);
            match r {
                Err(e) => o.open_err = e.to_string(),
                Ok(mut rd) => {
                    o.open_ok = true;
                    let mut n = 0;
                    loop {
                        if n > max_items + 8 {
                            break;
                        }
                        n += 1;
                        let stride = STRIDE.with(|c| c.get());
                        match if stride > 0 { rd.nth(stride) } else { rd.next() } {
                            None => {
                                // latch: a few more calls must keep returning None
                                let mut extra = 0;
                                for _ in 0..3 {
                                    if rd.next().is_some() {
                                        extra += 1;
                                    }
                                }
                                o.after_err += extra;
                                o.ended = true;
                                break;
                            }
                            Some(Ok(v)) => {
                                if o.errs > 0 {
                                    o.after_err += 1;
                                }
                                o.oks.push(v);
                            }
                            Some(Err(_)) => {
                                if o.errs > 0 {
                                    o.after_err += 1;
                                }
                                o.errs += 1;
                            }
                        }
                    }
                }
            }
        }
        o.source_calls = src.calls;
        o
    })
}

fn observe_deser<T: Corp>(bytes: &[u8], plan: SourcePlan, max_items: usize) -> Result<Observed, String> {
    guarded(|| {
        let mut src = SimSource::new(bytes, plan);
        let mut o = Observed { open_ok: false, open_err: String::new(), oks: vec![], errs: 0, after_err: 0, ended: false, source_calls: 0 };
        {
            match Reader::new(&mut src) {
                Err(e) => o.open_err = e.to_string(),
                Ok(rd) => {
                    o.open_ok = true;
                    let mut it = rd.into_deser_iter::<T>();
                    let mut n = 0;
                    loop {
                        if n > max_items + 8 {
                            break;
                        }
                        n += 1;
                        let stride = STRIDE.with(|c| c.get());
                        match if stride > 0 { it.nth(stride) } else { it.next() } {
                            None => {
                                let mut extra = 0;
                                for _ in 0..3 {
                                    if it.next().is_some() {
                                        extra += 1;
                                    }
                                }
                                o.after_err += extra;
                                o.ended = true;
                                break;
                            }
                            Some(Ok(t)) => {
                                if o.errs > 0 {
                                    o.after_err += 1;
                                }
                                o.oks.push(t.to_value());
                            }
                            Some(Err(_)) => {
                                if o.errs > 0 {
                                    o.after_err += 1;
                                }
                                o.errs += 1;
                            }
                        }
                    }
                }
            }
        }
        o.source_calls = src.calls;
        o
    })
}

fn region_of(l: &ParsedFile, x: usize) -> &'static str {
    if x < 4 {
        return "magic";
    }
    if x < l.header_marker_start {
        return "meta";
    }
    if x < l.header_end {
        return "header-marker";
    }
    if x == l.header_end {
        return "boundary";
    }
    for b in &l.blocks {
        if x == b.end {
            return "boundary";
        }
        if x < b.end {
            let o = x - b.start;
            return if o == 0 {
                "boundary"
            } else if o < b.count_len {
                "inside-count"
            } else if o == b.count_len {
                "after-count"
            } else if o < b.count_len + b.size_len {
                "inside-size"
            } else if x < b.marker_start {
                "payload"
            } else if x == b.marker_start {
                "payload-end"
            } else {
                "trailer"
            };
        }
    }
    "past-end"
}

fn judge_cut(b: &Built, x: usize, o: &Observed, iter: &str, codec: &str) -> Option<Failure> {
    let l = &b.layout;
    let region = region_of(l, x);
    let sig = |what: &str| format!("C14 {what} region={region} iter={iter}");
    if x < l.header_end {
        if o.open_ok {
            return Some(Failure::new(
                "open-accepts-cut-header",
                sig("open-accepts-cut-header"),
                format!("file cut at {x} (inside the {}-byte header) but Reader::new succeeded; codec {codec}", l.header_end),
            ));
        }
        return None;
    }
    if !o.open_ok {
        return Some(Failure::new(
            "open-fails-on-complete-header",
            sig("open-fails-on-complete-header"),
            format!("file cut at {x} (header ends at {}) but Reader::new failed: {}; codec {codec}", l.header_end, o.open_err),
        ));
    }
    let complete: Vec<&Vec<Value>> =
        l.blocks.iter().zip(&b.expected).filter(|(blk, _)| blk.end <= x).map(|(_, v)| v).collect();
    let expected: Vec<&Value> = complete.iter().flat_map(|v| v.iter()).collect();
    let on_boundary = x == l.header_end || l.blocks.iter().any(|blk| blk.end == x);
    if o.oks.len() != expected.len() || !o.oks.iter().zip(&expected).all(|(a, b)| avro_eq(a, b)) {
        let class = if o.oks.len() > expected.len() { "values-beyond-complete-blocks" } else { "not-a-true-prefix" };
        return Some(Failure::new(
            class,
            sig(class),
            format!(
                "file cut at {x}: {} complete block(s) hold {} value(s) but the reader delivered {} Ok item(s); codec {codec}",
                complete.len(),
                expected.len(),
                o.oks.len()
            ),
        ));
    }
    if !o.ended {
        return Some(Failure::new("no-end", sig("no-end"), format!("file cut at {x}: iterator did not end; codec {codec}")));
    }
    if o.after_err > 0 {
        return Some(Failure::new(
            "no-latch",
            sig("no-latch"),
            format!("file cut at {x}: {} item(s) were yielded after the first error; codec {codec}", o.after_err),
        ));
    }
    if on_boundary && o.errs != 0 {
        return Some(Failure::new(
            "error-on-clean-boundary",
            sig("error-on-clean-boundary"),
            format!("file cut at {x}, exactly on a block boundary, but the reader reported an error; codec {codec}"),
        ));
    }
    if !on_boundary && o.errs != 1 {
        return Some(Failure::new(
            "silent-truncation",
            sig("silent-truncation"),
            format!(
                "file cut at {x}, inside a block ({region}), but the reader ended with {} error(s) after {} value(s); codec {codec}",
                o.errs,
                o.oks.len()
            ),
        ));
    }
    None
}

/// A one-off read error at offset `x` of an intact file: what was delivered is exactly the blocks
/// read completely before it, the error is reported (also when it falls on a block boundary: it
/// is not an end of file), and nothing follows it - the source would deliver the rest, but a
/// reader that carries on after a failed block read decodes a buffer it never filled.
fn judge_read_err(b: &Built, x: usize, kind: u8, o: &Observed, iter: &str, codec: &str) -> Option<Failure> {
    let l = &b.layout;
    let region = region_of(l, x);
    let kname = ["Other", "WouldBlock", "TimedOut", "ConnectionReset"][kind as usize % 4];
    let sig = |what: &str| format!("C14 {what} region={region} iter={iter} error={kname}");
    if x >= b.bytes.len() {
        return None;
    }
    if x < l.header_end {
        if o.open_ok {
            return Some(Failure::new("open-swallows-read-error", sig("open-swallows-read-error"), format!("a {kname} error at offset {x}, inside the header, but Reader::new succeeded; codec {codec}")));
        }
        return None;
    }
    if !o.open_ok {
        return Some(Failure::new("open-fails-on-complete-header", sig("open-fails-on-complete-header"), format!("a {kname} error at offset {x} (header ends at {}) but Reader::new failed: {}; codec {codec}", l.header_end, o.open_err)));
    }
    // a block is read completely iff it ends at or before x (the reader reads block by block)
    let expected: Vec<&Value> = l.blocks.iter().zip(&b.expected).filter(|(blk, _)| blk.end <= x).flat_map(|(_, v)| v.iter()).collect();
    if o.oks.len() != expected.len() || !o.oks.iter().zip(&expected).all(|(a, b)| avro_eq(a, b)) {
        let class = if o.oks.len() > expected.len() { "values-after-read-error" } else { "not-a-true-prefix" };
        return Some(Failure::new(
            class,
            sig(class),
            format!("a {kname} error at offset {x}: {} value(s) lie in blocks read completely before it, the reader delivered {} Ok item(s); codec {codec}", expected.len(), o.oks.len()),
        ));
    }
    if o.errs != 1 || o.after_err > 0 || !o.ended {
        return Some(Failure::new(
            "read-error-not-reported-once",
            sig("read-error-not-reported-once"),
            format!("a {kname} error at offset {x} ({region}): errors={} items-after-error={} ended={}; codec {codec}", o.errs, o.after_err, o.ended),
        ));
    }
    None
}

fn judge_marker(b: &Built, which: usize, o: &Observed, iter: &str, codec: &str) -> Option<Failure> {
    let sig = |what: &str| format!("C14 {what} marker={} iter={iter}", if which == 0 { "header" } else { "trailer" });
    if !o.open_ok {
        return Some(Failure::new(
            "open-fails-on-marker-damage",
            sig("open-fails-on-marker-damage"),
            format!("marker occurrence {which} damaged; Reader::new failed: {}", o.open_err),
        ));
    }
    let nblocks_before = if which == 0 { 0 } else { which - 1 };
    let expected: Vec<&Value> = b.expected.iter().take(nblocks_before).flat_map(|v| v.iter()).collect();
    if b.expected.iter().skip(nblocks_before).all(|v| v.is_empty()) && which != 0 {
        // cannot happen: blocks are never empty
    }
    if o.oks.len() != expected.len() || !o.oks.iter().zip(&expected).all(|(a, b)| avro_eq(a, b)) {
        let class = if o.oks.len() > expected.len() { "values-from-damaged-block" } else { "not-a-true-prefix" };
        return Some(Failure::new(
            class,
            sig(class),
            format!(
                "marker occurrence {which} damaged: expected exactly the {} value(s) of the {} earlier block(s), reader delivered {}; codec {codec}",
                expected.len(),
                nblocks_before,
                o.oks.len()
            ),
        ));
    }
    if o.errs != 1 || o.after_err > 0 || !o.ended {
        return Some(Failure::new(
            "marker-damage-not-reported",
            sig("marker-damage-not-reported"),
            format!(
                "marker occurrence {which} damaged: errors={} items-after-error={} ended={}; codec {codec}",
                o.errs, o.after_err, o.ended
            ),
        ));
    }
    None
}

/// A consumer that advances with `nth(k)`: what it is handed must be exactly every (k+1)-th of
/// the values it would have been handed one by one (`expected`: the true prefix), nothing beyond.
/// (An `Err` that falls among the items passed over is dropped by `nth` itself, so the number of
/// errors seen is not judged here.)
fn judge_stepped(expected: &[&Value], k: usize, o: &Observed, what: &str, iter: &str, codec: &str) -> Option<Failure> {
    if !o.open_ok {
        return None;
    }
    let want: Vec<&Value> = expected.iter().skip(k).step_by(k + 1).cloned().collect();
    if o.oks.len() != want.len() || !o.oks.iter().zip(&want).all(|(a, b)| avro_eq(a, b)) {
        let class = if o.oks.len() > want.len() { "values-beyond-complete-blocks" } else { "not-a-true-prefix" };
        return Some(Failure::new(
            class,
            format!("C14 {class} access=nth({k}) iter={iter}"),
            format!("{what}: advancing with nth({k}), {} value(s) of the {} that may be delivered are due, the reader handed over {}; codec {codec}", want.len(), expected.len(), o.oks.len()),
        ));
    }
    if !o.ended {
        return Some(Failure::new("no-end", format!("C14 no-end access=nth({k}) iter={iter}"), format!("{what}: iterator did not end; codec {codec}")));
    }
    None
}

fn total_items(b: &Built) -> usize {
    b.expected.iter().map(|v| v.len()).sum()
}

fn observe(case: &Case, bytes: &[u8], plan: SourcePlan, max_items: usize, deser: bool) -> Result<Observed, String> {
    if deser {
        if let Payload::Corpus { type_id, .. } = &case.payload {
            return with_corpus!(type_id.as_str(), T => observe_deser::<T>(bytes, plan, max_items));
        }
    }
    observe_generic(bytes, plan, max_items)
}

fn run_damage(case: &Case, b: &Built, d: &Damage, ctx: &mut Ctx) -> Option<Failure> {
    let codec = case.codec.kind();
    let max_items = total_items(b);
    let has_deser = matches!(case.payload, Payload::Corpus { .. });
    let iters: &[(&str, bool)] = if has_deser { &[("value", false), ("deser", true)] } else { &[("value", false)] };
    for (iname, deser) in iters {
        let (obs, verdict_fn): (Result<Observed, String>, Box<dyn Fn(&Observed) -> Option<Failure>>) = match d {
            Damage::Cut { at, chunk, eintr_every } => {
                let plan = SourcePlan {
                    chunk: chunk.clone(),
                    faults: vec![ReadFault { kind: ReadFaultKind::Eof, at: *at }],
                    eintr_every: *eintr_every,
                };
                let x = *at as usize;
                (observe(case, &b.bytes, plan, max_items, *deser), Box::new(move |o| judge_cut(b, x, o, iname, codec)))
            }
            Damage::ReadErr { at, kind, chunk } => {
                let plan = SourcePlan { chunk: chunk.clone(), faults: vec![ReadFault { kind: ReadFaultKind::Once(*kind), at: *at }], eintr_every: 0 };
                let (x, k) = (*at as usize, *kind);
                (observe(case, &b.bytes, plan, max_items, *deser), Box::new(move |o| judge_read_err(b, x, k, o, iname, codec)))
            }
            Damage::Marker { which, byte, xor } => {
                let off = if *which == 0 { b.layout.header_marker_start } else { b.layout.blocks[*which - 1].marker_start } + byte;
                let mut bytes = b.bytes.clone();
                bytes[off] ^= xor;
                let w = *which;
                let o = observe(case, &bytes, SourcePlan::perfect(), max_items, *deser);
                (o, Box::new(move |o| judge_marker(b, w, o, iname, codec)))
            }
            Damage::Magic { byte, xor } => {
                let mut bytes = b.bytes.clone();
                bytes[*byte] ^= xor;
                let o = observe(case, &bytes, SourcePlan::perfect(), max_items, *deser);
                (
                    o,
                    Box::new(move |o: &Observed| {
                        if o.open_ok {
                            Some(Failure::new(
                                "open-accepts-bad-magic",
                                format!("C14 open-accepts-bad-magic iter={iname}"),
                                "a damaged magic was accepted by Reader::new".to_string(),
                            ))
                        } else {
                            None
                        }
                    }),
                )
            }
        };
        ctx.eval();
        match obs {
            Err(p) => {
                return Some(Failure::new(
                    "panic",
                    format!("C14 panic iter={iname}"),
                    format!("reader panicked on damaged file ({d:?}): {p}"),
                ));
            }
            Ok(o) => {
                ctx.steps(o.source_calls);
                ctx.ev_u(o.oks.len() as u64 * 4 + o.errs as u64);
                match d {
                    Damage::Cut { at, .. } => {
                        ctx.agg.count("fault.eof_at");
                        let region = region_of(&b.layout, *at as usize);
                        ctx.agg.state(format!("{codec}|cut:{region}|{iname}"));
                        match region {
                            "inside-count" => ctx.agg.count("probe.cut_inside_multibyte_count"),
                            "after-count" => ctx.agg.count("probe.cut_between_count_and_size"),
                            "trailer" => ctx.agg.count("probe.cut_inside_trailer"),
                            _ => {}
                        }
                    }
                    Damage::Marker { which, .. } => {
                        ctx.agg.count("fault.flip_marker_byte");
                        ctx.agg.state(format!("{codec}|marker:{}|{iname}", if *which == 0 { "header" } else { "trailer" }));
                    }
                    Damage::Magic { .. } => {
                        ctx.agg.count("fault.flip_magic_byte");
                        ctx.agg.state(format!("{codec}|magic|{iname}"));
                    }
                    Damage::ReadErr { at, kind, .. } => {
                        ctx.agg.count("fault.read_error_once");
                        let region = region_of(&b.layout, *at as usize);
                        if region == "boundary" {
                            ctx.agg.count("probe.read_error_on_block_boundary");
                        }
                        ctx.agg.state(format!("{codec}|readerr{kind}:{region}|{iname}"));
                    }
                }
                if let Some(mut f) = verdict_fn(&o) {
                    f.detail = format!("{} [damage={}]", f.detail, serde_json::to_string(d).unwrap());
                    return Some(f);
                }
                // the same damage met by a consumer that skips: nth(k)
                let stepped: Option<(Vec<&Value>, Vec<usize>, Vec<u8>, SourcePlan, String)> = match d {
                    Damage::Marker { which, byte, xor } if *which > 0 => {
                        let off = b.layout.blocks[*which - 1].marker_start + byte;
                        let mut bytes = b.bytes.clone();
                        bytes[off] ^= xor;
                        let expected: Vec<&Value> = b.expected.iter().take(*which - 1).flat_map(|v| v.iter()).collect();
                        // pass over one item, and over exactly the damaged block
                        let ks = if byte % 8 == 0 { vec![1, b.expected[*which - 1].len().max(1)] } else { vec![] };
                        Some((expected, ks, bytes, SourcePlan::perfect(), format!("marker occurrence {which} damaged")))
                    }
                    Damage::Cut { at, chunk, .. } if *at as usize >= b.layout.header_end && at % 9 == case.salt % 9 => {
                        let x = *at as usize;
                        let expected: Vec<&Value> = b.layout.blocks.iter().zip(&b.expected).filter(|(blk, _)| blk.end <= x).flat_map(|(_, v)| v.iter()).collect();
                        Some((expected, vec![2], b.bytes.clone(), SourcePlan { chunk: chunk.clone(), faults: vec![ReadFault { kind: ReadFaultKind::Eof, at: *at }], eintr_every: 0 }, format!("file cut at {x}")))
                    }
                    _ => None,
                };
                if let Some((expected, ks, bytes, plan, what)) = stepped {
                    for k in ks {
                        let o2 = with_stride(k, || observe(case, &bytes, plan.clone(), max_items, *deser));
                        ctx.eval();
                        ctx.agg.count("probe.consumer_advances_with_nth");
                        if let Ok(o2) = o2 {
                            if let Some(mut f) = judge_stepped(&expected, k, &o2, &what, iname, codec) {
                                f.detail = format!("{} [damage={}]", f.detail, serde_json::to_string(d).unwrap());
                                return Some(f);
                            }
                        }
                    }
                }
            }
        }
    }
    None
}

fn damages(case: &Case, b: &Built) -> Vec<Damage> {
    let mut out = vec![];
    let len = b.bytes.len() as u64;
    for x in 0..len {
        out.push(Damage::Cut { at: x, chunk: Chunk::All, eintr_every: 0 });
        out.push(Damage::Cut { at: x, chunk: Chunk::Const(1), eintr_every: 0 });
        if x % 5 == case.salt % 5 {
            out.push(Damage::Cut { at: x, chunk: Chunk::Hashed { salt: case.salt, max: 7 }, eintr_every: 3 });
        }
    }
    // one-off read errors: every offset with one kind (rotating), every block boundary with all kinds
    for x in 0..len {
        out.push(Damage::ReadErr { at: x, kind: ((x + case.salt) % 4) as u8, chunk: if x % 2 == 0 { Chunk::All } else { Chunk::Const(1) } });
    }
    let mut bounds = vec![b.layout.header_end as u64];
    bounds.extend(b.layout.blocks.iter().map(|blk| blk.end as u64));
    for x in bounds {
        for kind in 0..4u8 {
            out.push(Damage::ReadErr { at: x, kind, chunk: Chunk::All });
        }
    }
    let occurrences = 1 + b.layout.blocks.len();
    for which in 0..occurrences {
        for byte in 0..16 {
            for bit in 0..8 {
                out.push(Damage::Marker { which, byte, xor: 1 << bit });
            }
            let sub = (crate::rng::fnv(&format!("{}:{which}:{byte}", case.salt)) % 255 + 1) as u8;
            out.push(Damage::Marker { which, byte, xor: sub });
        }
    }
    for byte in 0..4 {
        for bit in 0..8 {
            out.push(Damage::Magic { byte, xor: 1 << bit });
        }
        out.push(Damage::Magic { byte, xor: 0xFF });
    }
    out
}

pub struct C14;

impl Property for C14 {
    type Case = Case;
    fn id(&self) -> &'static str {
        "C14"
    }
    fn level(&self) -> &'static str {
        "fault_enumeration"
    }
    fn rule(&self) -> String {
        "Seeds sample container files (2-6 blocks; block sizes 1, 63, 64, 65, ~200 so counts need 1 and 2 varint bytes; zero-width \
         and variable-width items; all 6 codecs; generic schemas and serde corpus types; framing by the reference writer or by the \
         library writer). Per file the damage space is enumerated: EVERY byte offset as cut point under 2-3 read-chunk policies, \
         every byte of every marker occurrence (8 single-bit flips + 1 substitution) and of the magic; and, on the intact file, one \
         one-off read error (Other, WouldBlock, TimedOut, ConnectionReset - the source would go on afterwards) at EVERY offset and \
         all four kinds at every block boundary: exactly the blocks read completely before it, one error, nothing after it. Marker \
         damage and a ninth of the cuts are also met by a consumer that advances with nth(k); one file in ten holds bytes values \
         equal to its own sync marker. One evaluation = one damaged \
         read through one iterator (Reader, and into_deser_iter for corpus files). distinct_nontrivial counts distinct \
         (codec, damage region, iterator) triples, region in {magic, meta, header-marker, boundary, inside-count, after-count, \
         inside-size, payload, payload-end, trailer} or marker:{header,trailer} or magic."
            .into()
    }
    fn assumptions(&self) -> Vec<String> {
        vec![
            "block boundaries are located by the harness's reference parser; a library-written file that the reference parser cannot read is skipped (that is C03's alarm)".into(),
            "payload bytes of corpus files are encoded by the library's datum writer (framing is still independent)".into(),
        ]
    }
    fn components(&self) -> J {
        json!({"real": ["apache_avro Reader / ReaderDeser / Block / codecs", "apache_avro Writer (producer=Library files)"],
               "simulated": ["SimSource (EOF at offset, chunking, EINTR)", "byte damage at rest"],
               "reference": ["refimpl container writer and parser", "refimpl datum encoder"]})
    }
    fn runs(&self, tier: Tier) -> u64 {
        match tier {
            Tier::Quick => 160,
            Tier::Thorough => 12_000,
        }
    }
    fn required_probes(&self) -> Vec<&'static str> {
        vec!["probe.cut_inside_multibyte_count", "probe.cut_between_count_and_size", "probe.cut_inside_trailer", "probe.zero_width_items", "probe.read_error_on_block_boundary", "probe.consumer_advances_with_nth"]
    }

    fn generate(&self, rng: &mut Rng, _run: u64, _tier: Tier) -> Option<Case> {
        let mut wr = rng.fork("workload");
        let nblocks = wr.range(2, 6) as usize;
        let mut sizes: Vec<usize> = (0..nblocks).map(|_| *wr.pick(&[1usize, 1, 2, 3, 63, 64, 65, 5])).collect();
        if wr.chance(1, 6) {
            let i = wr.usize_below(nblocks);
            sizes[i] = 200;
        }
        // a library-written file encodes multi-entry maps in hash order, which would make the file
        // (and so the set of crash points) differ from process to process: one entry at most there
        let producer = if wr.fork("producer").chance(3, 4) { Producer::Reference } else { Producer::Library };
        let marker = marker_from(&mut wr.fork("marker"));
        let payload = if wr.fork("marker-in-payload").chance(1, 10) {
            // `bytes` values, some of them equal to the file's own sync marker: a cut right behind
            // such an occurrence leaves a file whose last 16 bytes look like a block trailer
            let mut mr = wr.fork("marker-values");
            let blocks = sizes
                .iter()
                .map(|n| (0..(*n).min(6)).map(|_| RV::Bytes(if mr.chance(1, 2) { marker.to_vec() } else { let k = mr.usize_below(20); mr.bytes(k) })).collect())
                .collect();
            Payload::Generic { schema: RS::Bytes, blocks }
        } else if wr.chance(2, 3) {
            // small schemas: the file is re-read once per byte offset
            let schema = match wr.below(8) {
                0 => RS::Null,
                1 => RS::Record { full: "E".into(), style: crate::gen::NameStyle::Inherit, fields: vec![] },
                2 => RS::Long,
                3 => RS::String,
                4 => RS::Bytes,
                _ => gen_schema(&mut wr, 2, true).root,
            };
            let p = parse_rs(&schema)?;
            let mut vg = ValueGen::new(&p.defs);
            vg.max_blob = 40;
            vg.max_len = 2;
            if producer == Producer::Library {
                vg.max_map = 1;
            }
            let blocks = sizes.iter().map(|n| (0..*n).map(|_| vg.gen(&mut wr, &schema, 0)).collect()).collect();
            Payload::Generic { schema, blocks }
        } else {
            let id = *wr.pick(&corpus::IDS);
            let blocks = with_corpus!(id, T => sizes.iter().map(|n| (0..(*n).min(65)).map(|_| serde_json::to_value(T::gen(&mut wr)).unwrap()).collect()).collect());
            Payload::Corpus { type_id: id.into(), blocks }
        };
        let codec = match wr.below(8) {
            0..=2 => CodecSpec::Null,
            3 => CodecSpec::Deflate(-1),
            4 => CodecSpec::Snappy,
            5 => CodecSpec::Zstd(1),
            6 => CodecSpec::Bzip2(1),
            _ => CodecSpec::Xz(0),
        };
        let user_meta = if wr.chance(1, 3) { vec![("k".to_string(), wr.bytes(3))] } else { vec![] };
        Some(Case {
            payload,
            codec,
            user_meta,
            marker,
            producer,
            salt: wr.next_u64(),
            only: None,
        })
    }

    fn execute(&self, case: &Case, ctx: &mut Ctx) -> Option<Failure> {
        let Some(b) = build(case) else {
            ctx.agg.count("scenario.unbuildable");
            return None;
        };
        ctx.ev_u(b.bytes.len() as u64);
        ctx.ev_u(b.layout.header_end as u64);
        if b.layout.blocks.iter().any(|blk| blk.count > 0 && blk.payload_len == 0)
            || matches!(&case.payload, Payload::Generic { schema: RS::Null, .. })
        {
            ctx.agg.count("probe.zero_width_items");
        }
        // the undamaged file must read back completely (otherwise nothing below means anything)
        let full = observe(case, &b.bytes, SourcePlan::perfect(), total_items(&b), false);
        ctx.eval();
        match &full {
            Ok(o) if o.open_ok && o.errs == 0 && o.oks.len() == total_items(&b) => {}
            other => {
                return Some(Failure::new(
                    "undamaged-file-unreadable",
                    "C14 undamaged-file-unreadable".to_string(),
                    format!("the undamaged file does not read back completely: {:?}", other.as_ref().map(|o| (o.open_ok, o.oks.len(), o.errs, &o.open_err))),
                ));
            }
        }
        let ds = match &case.only {
            Some(d) => vec![d.clone()],
            None => damages(case, &b),
        };
        let mut first = None;
        for d in &ds {
            if let Some(f) = run_damage(case, &b, d, ctx) {
                ctx.ev(&f.class);
                if first.is_none() {
                    first = Some(f);
                }
                if case.only.is_none() {
                    // one failure per file is enough; keep the log deterministic by stopping here
                    break;
                }
            }
        }
        first
    }

    fn shrink(&self, case: &Case, failure: &Failure) -> Vec<Case> {
        let mut out = vec![];
        if case.only.is_none() {
            if let Some(i) = failure.detail.rfind("[damage=") {
                let s = &failure.detail[i + 8..failure.detail.len() - 1];
                if let Ok(d) = serde_json::from_str::<Damage>(s) {
                    let mut c = case.clone();
                    c.only = Some(d);
                    out.push(c);
                }
            }
            return out;
        }
        // Shrinking the file moves offsets, so a Cut is re-enumerated after each structural shrink.
        let reenumerate = |mut c: Case| {
            c.only = None;
            c
        };
        let nblocks = match &case.payload {
            Payload::Generic { blocks, .. } => blocks.len(),
            Payload::Corpus { blocks, .. } => blocks.len(),
        };
        if nblocks > 1 {
            for i in (0..nblocks).rev() {
                let mut c = case.clone();
                match &mut c.payload {
                    Payload::Generic { blocks, .. } => {
                        blocks.remove(i);
                    }
                    Payload::Corpus { blocks, .. } => {
                        blocks.remove(i);
                    }
                }
                out.push(reenumerate(c));
            }
        }
        // fewer items per block
        for i in 0..nblocks {
            let mut c = case.clone();
            let changed = match &mut c.payload {
                Payload::Generic { blocks, .. } => {
                    if blocks[i].len() > 1 {
                        let keep = if blocks[i].len() > 64 { 64 } else { 1 };
                        blocks[i].truncate(keep);
                        true
                    } else {
                        false
                    }
                }
                Payload::Corpus { blocks, .. } => {
                    if blocks[i].len() > 1 {
                        let keep = if blocks[i].len() > 64 { 64 } else { 1 };
                        blocks[i].truncate(keep);
                        true
                    } else {
                        false
                    }
                }
            };
            if changed {
                out.push(reenumerate(c));
            }
        }
        if case.codec != CodecSpec::Null {
            let mut c = case.clone();
            c.codec = CodecSpec::Null;
            out.push(reenumerate(c));
        }
        if !case.user_meta.is_empty() {
            let mut c = case.clone();
            c.user_meta.clear();
            out.push(reenumerate(c));
        }
        if case.producer == Producer::Library {
            let mut c = case.clone();
            c.producer = Producer::Reference;
            out.push(reenumerate(c));
        }
        if let Payload::Generic { schema, blocks } = &case.payload {
            if *schema != RS::Long {
                let mut c = case.clone();
                c.payload = Payload::Generic {
                    schema: RS::Long,
                    blocks: blocks.iter().map(|b| b.iter().map(|_| RV::Long(7)).collect()).collect(),
                };
                out.push(reenumerate(c));
            }
        }
        if let Some(Damage::Cut { at, chunk, eintr_every }) = &case.only {
            if *chunk != Chunk::All || *eintr_every != 0 {
                let mut c = case.clone();
                c.only = Some(Damage::Cut { at: *at, chunk: Chunk::All, eintr_every: 0 });
                out.push(c);
            }
        }
        out
    }

    fn sample(&self, case: &Case) -> J {
        let (what, sizes): (J, Vec<usize>) = match &case.payload {
            Payload::Generic { schema, blocks } => (to_json(schema), blocks.iter().map(|b| b.len()).collect()),
            Payload::Corpus { type_id, blocks } => (json!(type_id), blocks.iter().map(|b| b.len()).collect()),
        };
        json!({"schema_or_type": what, "items_per_block": sizes, "codec": case.codec, "producer": case.producer,
               "damage_space": "every byte offset as cut (2-3 chunk policies) + every marker byte x 9 alterations + magic bytes x 9"})
    }
}
