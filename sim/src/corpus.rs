//! Fixed corpus of serde types (derive feature) with seeded values, hand-written expected `Value`s,
//! and for each a mismatching twin that fails part-way through serialization against the
//! original type's schema.

use crate::rng::Rng;
use apache_avro::AvroSchema;
use apache_avro::types::Value;
use serde::{Deserialize, Serialize, de::DeserializeOwned};
use std::collections::HashMap;
use std::fmt::Debug;

pub trait Corp: Serialize + DeserializeOwned + AvroSchema + Clone + Debug + PartialEq + 'static {
    const ID: &'static str;
    type Bad: Serialize + Debug;
    fn gen(rng: &mut Rng) -> Self;
    fn to_value(&self) -> Value;
    /// A value of the twin type: first field(s) fine, a later one of the wrong kind.
    fn bad(rng: &mut Rng) -> Self::Bad;
}

fn gen_string(rng: &mut Rng) -> String {
    match rng.below(6) {
        0 => String::new(),
        1 => "x".into(),
        2 => "héllo wörld".into(),
        3 => "日本".into(),
        4 => "a".repeat(*rng.pick(&[63usize, 64, 65, 200])),
        _ => format!("s{}", rng.below(10_000)),
    }
}

fn gen_i64(rng: &mut Rng) -> i64 {
    *rng.pick(&[0i64, -1, 1, 63, 64, -65, 8192, i64::MAX, i64::MIN, 1 << 40, -(1 << 33)])
}

fn gen_i32(rng: &mut Rng) -> i32 {
    *rng.pick(&[0i32, -1, 1, 63, 64, -65, 8192, i32::MAX, i32::MIN, 1 << 20])
}

fn gen_f64(rng: &mut Rng) -> f64 {
    *rng.pick(&[0.0f64, 1.5, -2.25, 1e300, -1e-300, 3.141592653589793, f64::MAX, f64::MIN_POSITIVE])
}

#[derive(Serialize, Deserialize, AvroSchema, Clone, Debug, PartialEq)]
pub struct Flat {
    pub a: i64,
    pub b: String,
    pub c: bool,
}
#[derive(Serialize, Debug)]
pub struct FlatBad {
    pub a: i64,
    pub b: i64,
    pub c: bool,
}
impl Flat {
    fn val(&self) -> Value {
        Value::Record(vec![
            ("a".into(), Value::Long(self.a)),
            ("b".into(), Value::String(self.b.clone())),
            ("c".into(), Value::Boolean(self.c)),
        ])
    }
    fn g(rng: &mut Rng) -> Self {
        Flat { a: gen_i64(rng), b: gen_string(rng), c: rng.chance(1, 2) }
    }
}
impl Corp for Flat {
    const ID: &'static str = "Flat";
    type Bad = FlatBad;
    fn gen(rng: &mut Rng) -> Self {
        Flat::g(rng)
    }
    fn to_value(&self) -> Value {
        self.val()
    }
    fn bad(rng: &mut Rng) -> FlatBad {
        FlatBad { a: gen_i64(rng), b: 7, c: true }
    }
}

#[derive(Serialize, Deserialize, AvroSchema, Clone, Debug, PartialEq)]
pub struct Nested {
    pub id: i32,
    pub inner: Flat,
    pub tags: Vec<String>,
}
#[derive(Serialize, Debug)]
pub struct NestedBad {
    pub id: i32,
    pub inner: Flat,
    pub tags: Vec<i32>,
}
impl Corp for Nested {
    const ID: &'static str = "Nested";
    type Bad = NestedBad;
    fn gen(rng: &mut Rng) -> Self {
        let n = rng.range(0, 3) as usize;
        Nested { id: gen_i32(rng), inner: Flat::g(rng), tags: (0..n).map(|_| gen_string(rng)).collect() }
    }
    fn to_value(&self) -> Value {
        Value::Record(vec![
            ("id".into(), Value::Int(self.id)),
            ("inner".into(), self.inner.val()),
            ("tags".into(), Value::Array(self.tags.iter().map(|s| Value::String(s.clone())).collect())),
        ])
    }
    fn bad(rng: &mut Rng) -> NestedBad {
        NestedBad { id: gen_i32(rng), inner: Flat::g(rng), tags: vec![1, 2] }
    }
}

#[derive(Serialize, Deserialize, AvroSchema, Clone, Debug, PartialEq)]
pub struct WithOpt {
    pub x: Option<i64>,
    pub y: Option<String>,
    pub z: f64,
}
#[derive(Serialize, Debug)]
pub struct WithOptBad {
    pub x: Option<i64>,
    pub y: Option<String>,
    pub z: String,
}
impl Corp for WithOpt {
    const ID: &'static str = "WithOpt";
    type Bad = WithOptBad;
    fn gen(rng: &mut Rng) -> Self {
        WithOpt {
            x: if rng.chance(1, 2) { Some(gen_i64(rng)) } else { None },
            y: if rng.chance(1, 2) { Some(gen_string(rng)) } else { None },
            z: gen_f64(rng),
        }
    }
    fn to_value(&self) -> Value {
        let x = match self.x {
            None => Value::Union(0, Box::new(Value::Null)),
            Some(v) => Value::Union(1, Box::new(Value::Long(v))),
        };
        let y = match &self.y {
            None => Value::Union(0, Box::new(Value::Null)),
            Some(v) => Value::Union(1, Box::new(Value::String(v.clone()))),
        };
        Value::Record(vec![("x".into(), x), ("y".into(), y), ("z".into(), Value::Double(self.z))])
    }
    fn bad(rng: &mut Rng) -> WithOptBad {
        WithOptBad { x: Some(gen_i64(rng)), y: Some(gen_string(rng)), z: "no".into() }
    }
}

#[derive(Serialize, Deserialize, AvroSchema, Clone, Debug, PartialEq)]
pub struct WithMap {
    pub n: i32,
    pub m: HashMap<String, i32>,
    pub tail: i64,
}
#[derive(Serialize, Debug)]
pub struct WithMapBad {
    pub n: i32,
    pub m: HashMap<String, i32>,
    pub tail: bool,
}
impl Corp for WithMap {
    const ID: &'static str = "WithMap";
    type Bad = WithMapBad;
    fn gen(rng: &mut Rng) -> Self {
        // at most one entry: fault plans are keyed by sink call index, so encodings must not
        // depend on hash order
        let mut m = HashMap::new();
        if rng.chance(2, 3) {
            m.insert(gen_string(rng), gen_i32(rng));
        }
        WithMap { n: gen_i32(rng), m, tail: gen_i64(rng) }
    }
    fn to_value(&self) -> Value {
        Value::Record(vec![
            ("n".into(), Value::Int(self.n)),
            ("m".into(), Value::Map(self.m.iter().map(|(k, v)| (k.clone(), Value::Int(*v))).collect())),
            ("tail".into(), Value::Long(self.tail)),
        ])
    }
    fn bad(rng: &mut Rng) -> WithMapBad {
        let mut m = HashMap::new();
        m.insert("k".to_string(), gen_i32(rng));
        WithMapBad { n: gen_i32(rng), m, tail: false }
    }
}

#[derive(Serialize, Deserialize, AvroSchema, Clone, Debug, PartialEq)]
pub enum Color {
    Red,
    Green,
    Blue,
}
#[derive(Serialize, Deserialize, AvroSchema, Clone, Debug, PartialEq)]
pub struct WithEnum {
    pub v: Vec<i32>,
    pub c: Color,
}
#[derive(Serialize, Debug)]
pub struct WithEnumBad {
    pub v: Vec<i32>,
    pub c: f64,
}
impl Corp for WithEnum {
    const ID: &'static str = "WithEnum";
    type Bad = WithEnumBad;
    fn gen(rng: &mut Rng) -> Self {
        let n = rng.range(0, 4) as usize;
        WithEnum {
            v: (0..n).map(|_| gen_i32(rng)).collect(),
            c: match rng.below(3) {
                0 => Color::Red,
                1 => Color::Green,
                _ => Color::Blue,
            },
        }
    }
    fn to_value(&self) -> Value {
        let (i, s) = match self.c {
            Color::Red => (0, "Red"),
            Color::Green => (1, "Green"),
            Color::Blue => (2, "Blue"),
        };
        Value::Record(vec![
            ("v".into(), Value::Array(self.v.iter().map(|x| Value::Int(*x)).collect())),
            ("c".into(), Value::Enum(i, s.into())),
        ])
    }
    fn bad(rng: &mut Rng) -> WithEnumBad {
        WithEnumBad { v: vec![gen_i32(rng), 5], c: 1.0 }
    }
}

#[derive(Serialize, Deserialize, AvroSchema, Clone, Debug, PartialEq)]
pub struct Deep {
    pub items: Vec<Flat>,
    pub o: Option<Flat>,
    pub k: i32,
}
#[derive(Serialize, Debug)]
pub struct DeepBad {
    pub items: Vec<Flat>,
    pub o: Option<Flat>,
    pub k: String,
}
impl Corp for Deep {
    const ID: &'static str = "Deep";
    type Bad = DeepBad;
    fn gen(rng: &mut Rng) -> Self {
        let n = rng.range(0, 3) as usize;
        Deep {
            items: (0..n).map(|_| Flat::g(rng)).collect(),
            o: if rng.chance(1, 2) { Some(Flat::g(rng)) } else { None },
            k: gen_i32(rng),
        }
    }
    fn to_value(&self) -> Value {
        let o = match &self.o {
            None => Value::Union(0, Box::new(Value::Null)),
            Some(f) => Value::Union(1, Box::new(f.val())),
        };
        Value::Record(vec![
            ("items".into(), Value::Array(self.items.iter().map(|f| f.val()).collect())),
            ("o".into(), o),
            ("k".into(), Value::Int(self.k)),
        ])
    }
    fn bad(rng: &mut Rng) -> DeepBad {
        DeepBad { items: vec![Flat::g(rng)], o: Some(Flat::g(rng)), k: "bad".into() }
    }
}

#[derive(Serialize, Deserialize, AvroSchema, Clone, Debug, PartialEq)]
pub struct Empty {}
#[derive(Serialize, Debug)]
pub struct EmptyBad {
    pub not_there: i32,
}
impl Corp for Empty {
    const ID: &'static str = "Empty";
    type Bad = EmptyBad;
    fn gen(_: &mut Rng) -> Self {
        Empty {}
    }
    fn to_value(&self) -> Value {
        Value::Record(vec![])
    }
    fn bad(_: &mut Rng) -> EmptyBad {
        EmptyBad { not_there: 1 }
    }
}

#[derive(Serialize, Deserialize, AvroSchema, Clone, Debug, PartialEq)]
pub struct Nums {
    pub f: f32,
    pub d: f64,
    pub i: i32,
    pub s: String,
}
#[derive(Serialize, Debug)]
pub struct NumsBad {
    pub f: f32,
    pub d: f64,
    pub i: i32,
    pub s: Vec<String>,
}
impl Corp for Nums {
    const ID: &'static str = "Nums";
    type Bad = NumsBad;
    fn gen(rng: &mut Rng) -> Self {
        Nums { f: *rng.pick(&[0.0f32, 1.5, -7.25, f32::MAX]), d: gen_f64(rng), i: gen_i32(rng), s: gen_string(rng) }
    }
    fn to_value(&self) -> Value {
        Value::Record(vec![
            ("f".into(), Value::Float(self.f)),
            ("d".into(), Value::Double(self.d)),
            ("i".into(), Value::Int(self.i)),
            ("s".into(), Value::String(self.s.clone())),
        ])
    }
    fn bad(rng: &mut Rng) -> NumsBad {
        NumsBad { f: 1.0, d: gen_f64(rng), i: gen_i32(rng), s: vec!["x".into()] }
    }
}

pub const IDS: [&str; 8] = ["Flat", "Nested", "WithOpt", "WithMap", "WithEnum", "Deep", "Empty", "Nums"];

/// Dispatch on a corpus type id: binds the type to `$T` inside `$body`.
#[macro_export]
macro_rules! with_corpus {
    ($id:expr, $T:ident => $body:expr) => {{
        match $id {
            "Flat" => {
                type $T = $crate::corpus::Flat;
                $body
            }
            "Nested" => {
                type $T = $crate::corpus::Nested;
                $body
            }
            "WithOpt" => {
                type $T = $crate::corpus::WithOpt;
                $body
            }
            "WithMap" => {
                type $T = $crate::corpus::WithMap;
                $body
            }
            "WithEnum" => {
                type $T = $crate::corpus::WithEnum;
                $body
            }
            "Deep" => {
                type $T = $crate::corpus::Deep;
                $body
            }
            "Empty" => {
                type $T = $crate::corpus::Empty;
                $body
            }
            "Nums" => {
                type $T = $crate::corpus::Nums;
                $body
            }
            other => panic!("unknown corpus type {other}"),
        }
    }};
}

macro_rules! impl_into_value {
    ($($t:ty),*) => {$(
        impl From<$t> for Value {
            fn from(v: $t) -> Value {
                Corp::to_value(&v)
            }
        }
        impl From<Value> for $t {
            fn from(v: Value) -> $t {
                apache_avro::from_value::<$t>(&v).expect("from_value of a decoded corpus value")
            }
        }
    )*};
}
impl_into_value!(Flat, Nested, WithOpt, WithMap, WithEnum, Deep, Empty, Nums);


/// The same record schema with its fields listed in another (seeded) order at every level, so
/// that the serde serializer meets fields out of schema order. `perm == 0`: unchanged.
pub fn permuted_schema(schema: &apache_avro::Schema, perm: u64) -> apache_avro::Schema {
    if perm == 0 {
        return schema.clone();
    }
    fn walk(j: &mut serde_json::Value, rng: &mut Rng) {
        match j {
            serde_json::Value::Object(m) => {
                if m.get("type").and_then(|t| t.as_str()) == Some("record") {
                    if let Some(serde_json::Value::Array(fs)) = m.get_mut("fields") {
                        rng.shuffle(fs);
                    }
                }
                for (_, v) in m.iter_mut() {
                    walk(v, rng);
                }
            }
            serde_json::Value::Array(a) => a.iter_mut().for_each(|v| walk(v, rng)),
            _ => {}
        }
    }
    let mut j = serde_json::to_value(schema).expect("schema to json");
    let mut rng = Rng::new(perm);
    walk(&mut j, &mut rng);
    // a definition must still precede its references: fall back to the original order if not
    apache_avro::Schema::parse(&j).unwrap_or_else(|_| schema.clone())
}


/// A second generation of `Flat`: another Rust type whose schema has the same full name but other
/// fields (what a service sees when two versions of a record live in one process).
pub mod gen2 {
    use apache_avro::AvroSchema;
    use serde::{Deserialize, Serialize};
    #[derive(Serialize, Deserialize, AvroSchema, Clone, Debug, PartialEq)]
    pub struct Flat {
        pub a: i64,
        pub b: String,
        pub c: bool,
        pub d: i32,
    }
}


/// The value with the fields of every record in the order in which `schema` lists them (hand-written
/// expected values follow the Rust type; a schema from `permuted_schema` lists them otherwise).
pub fn reorder_to_schema(v: Value, schema: &apache_avro::Schema) -> Value {
    use apache_avro::Schema as S;
    fn collect<'a>(s: &'a S, names: &mut std::collections::BTreeMap<String, &'a S>) {
        match s {
            S::Record(r) => {
                names.insert(r.name.fullname(None), s);
                r.fields.iter().for_each(|f| collect(&f.schema, names));
            }
            S::Array(a) => collect(&a.items, names),
            S::Map(m) => collect(&m.types, names),
            S::Union(u) => u.variants().iter().for_each(|b| collect(b, names)),
            _ => {}
        }
    }
    fn go(v: Value, s: &S, names: &std::collections::BTreeMap<String, &S>) -> Value {
        match (v, s) {
            (v, S::Ref { name }) => match names.get(&name.fullname(None)) {
                Some(t) => go(v, t, names),
                None => v,
            },
            (Value::Record(mut fs), S::Record(r)) => {
                let mut out = Vec::with_capacity(fs.len());
                for f in &r.fields {
                    if let Some(i) = fs.iter().position(|(n, _)| n == &f.name) {
                        let (n, x) = fs.remove(i);
                        out.push((n, go(x, &f.schema, names)));
                    }
                }
                out.extend(fs);
                Value::Record(out)
            }
            (Value::Array(xs), S::Array(a)) => Value::Array(xs.into_iter().map(|x| go(x, &a.items, names)).collect()),
            (Value::Map(m), S::Map(ms)) => Value::Map(m.into_iter().map(|(k, x)| (k, go(x, &ms.types, names))).collect()),
            (Value::Union(i, x), S::Union(u)) => match u.variants().get(i as usize) {
                Some(b) => Value::Union(i, Box::new(go(*x, b, names))),
                None => Value::Union(i, x),
            },
            (v, _) => v,
        }
    }
    let mut names = std::collections::BTreeMap::new();
    collect(schema, &mut names);
    go(v, schema, &names)
}
