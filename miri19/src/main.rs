//! miri19 - the C19 scenario with free-running threads, for Miri's seeded scheduler.
//!
//! `miri19 <scenario-seed> [print]`: derives one scenario from the seed (same generator as the
//! baton engine, small sizes, no C-backed codecs), runs every thread's script without a baton -
//! Miri preempts inside library code and `std` as `-Zmiri-seed` dictates - stamps invoke/return
//! with a global sequence number and judges the history against the write-once-register model.
//! Exit 0: history accepted. Exit 1: `MIRI-VIOLATION <json>` printed.

#![allow(dead_code)]

#[path = "../../sim/src/rng.rs"]
mod rng;
mod c19;

use c19::gen::{gen_case, gen_race_case, Case, GenCfg, ALLOC_VALUES_SMALL};
use c19::model::*;
use std::sync::atomic::{AtomicBool, AtomicU64, Ordering};
use std::sync::{Arc, Mutex};

static SEQ: AtomicU64 = AtomicU64::new(0);
static GO: AtomicBool = AtomicBool::new(false);

fn run(case: &Case) -> History {
    let events = Arc::new(Mutex::new(Vec::<Event>::new()));
    let mut handles = vec![];
    for (tid, script) in case.threads.iter().enumerate() {
        let script = script.clone();
        let events = events.clone();
        handles.push(std::thread::spawn(move || {
            while !GO.load(Ordering::Acquire) {
                std::thread::yield_now();
            }
            for (index, op) in script.into_iter().enumerate() {
                let invoke = SEQ.fetch_add(1, Ordering::SeqCst) + 1;
                let obs = match std::panic::catch_unwind(|| c19::exec::perform(&op)) {
                    Ok(o) => o,
                    Err(_) => Obs::Panic("panic".into()),
                };
                let ret = SEQ.fetch_add(1, Ordering::SeqCst) + 1;
                events.lock().unwrap().push(Event { thread: tid, index, op, invoke, ret, obs });
            }
        }));
    }
    GO.store(true, Ordering::Release);
    for h in handles {
        let _ = h.join();
    }
    let events = events.lock().unwrap().clone();
    History { sizes: c19::exec::sizes(), events }
}

fn main() {
    let args: Vec<String> = std::env::args().collect();
    let seed: u64 = args.get(1).and_then(|s| s.parse().ok()).unwrap_or(1);
    let case: Case = if let Some(json) = args.get(2).filter(|a| a.starts_with('{')) {
        serde_json::from_str(json).expect("scenario json")
    } else if let Some(idx) = args.get(2).and_then(|a| a.strip_prefix("race:")).and_then(|n| n.parse::<usize>().ok()) {
        // a first-use race on one setting (the settings are taken in turn)
        let mut rng = rng::Rng::for_run(seed, "C19-miri-race", 0);
        gen_race_case(&mut rng, Setting::ALL[idx % Setting::ALL.len()], (idx / Setting::ALL.len()) % 2 == 1, &GenCfg { max_data: 48, max_declared: 4096, c_codecs: false, alloc_values: &ALLOC_VALUES_SMALL, validators: true })
    } else {
        let mut rng = rng::Rng::for_run(seed, "C19-miri", 0);
        gen_case(&mut rng, &GenCfg { max_data: 48, max_declared: 4096, c_codecs: false, alloc_values: &ALLOC_VALUES_SMALL, validators: args.get(2).map(|a| a == "validators").unwrap_or(false) })
    };
    if args.iter().any(|a| a == "print") {
        println!("PRINT-CASE {}", serde_json::to_string(&case).unwrap());
        return;
    }
    let h = run(&case);
    let overlaps = {
        let mut n = 0;
        for a in &h.events {
            for b in &h.events {
                if a.thread < b.thread && a.invoke < b.ret && b.invoke < a.ret {
                    n += 1;
                }
            }
        }
        n
    };
    let order: Vec<String> = {
        let mut v: Vec<&Event> = h.events.iter().collect();
        v.sort_by_key(|e| e.invoke);
        v.iter().map(|e| format!("{}:{}", e.thread, e.op.kind())).collect()
    };
    match judge(&h) {
        None => {
            println!("MIRI-OK {}", serde_json::json!({"scenario_seed": seed, "ops": h.events.len(), "overlapping_pairs": overlaps, "order": order}));
        }
        Some(v) => {
            println!(
                "MIRI-VIOLATION {}",
                serde_json::json!({"scenario_seed": seed, "class": v.class, "setting": v.setting.map(|s| s.name()), "op": v.op_kind, "detail": v.detail, "case": case, "history": h})
            );
            std::process::exit(1);
        }
    }
}
