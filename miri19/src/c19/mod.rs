//! The C19 model, executor and generator of `/verif/sim`, compiled as they are.
#[path = "../../../sim/src/c19/exec.rs"]
pub mod exec;
#[path = "../../../sim/src/c19/gen.rs"]
pub mod gen;
#[path = "../../../sim/src/c19/model.rs"]
pub mod model;
